// Java module overrides for the integer / bit primitives of spec/BigNat.tla.
//
// Policy (DESIGN.md section 2.1): only total, side-effect-free arithmetic primitives
// are overridden; each has a pure TLA+ definition `XxxPure` in BigNat.tla and
// spec/selftest/SelfTest.tla makes TLC compare the two.  No predicate, codec
// rule, hash round, curve formula or protocol step is implemented here.
//
// Representation: a natural number is a TLA+ sequence of bytes (0..255),
// little-endian, without trailing zero bytes (0 is <<>>).  Inputs need not be
// normalised; outputs always are.

import java.math.BigInteger;
import tlc2.overrides.ITLCOverrides;
import tlc2.overrides.TLAPlusOperator;
import tlc2.value.impl.BoolValue;
import tlc2.value.impl.IntValue;
import tlc2.value.impl.TupleValue;
import tlc2.value.impl.Value;

public class CrrlOverrides implements ITLCOverrides {

    @Override
    @SuppressWarnings("rawtypes")
    public Class[] get() {
        return new Class[] { CrrlOverrides.class };
    }

    private static BigInteger big(final Value v) {
        final TupleValue t = (TupleValue) v.toTuple();
        if (t == null) {
            throw new RuntimeException("BigNat override: not a sequence: " + v);
        }
        final Value[] e = t.elems;
        final byte[] be = new byte[e.length + 1];
        for (int i = 0; i < e.length; i++) {
            final int b = ((IntValue) e[i]).val;
            if (b < 0 || b > 255) {
                throw new RuntimeException("BigNat override: not a byte: " + b);
            }
            be[e.length - i] = (byte) b;
        }
        return new BigInteger(be);
    }

    private static Value nat(final BigInteger x) {
        if (x.signum() < 0) {
            throw new RuntimeException("BigNat override: negative result");
        }
        final int n = (x.bitLength() + 7) >> 3;
        final byte[] be = x.toByteArray();
        final Value[] e = new Value[n];
        for (int i = 0; i < n; i++) {
            e[i] = IntValue.gen(be[be.length - 1 - i] & 0xFF);
        }
        return new TupleValue(e);
    }

    private static int small(final Value v) {
        return ((IntValue) v).val;
    }

    // identity on values: forces a lazily represented function with domain 1..n
    // into an explicit tuple
    @TLAPlusOperator(identifier = "Tup", module = "BigNat", warn = false)
    public static Value tup(final Value f) {
        final Value t = f.toTuple();
        if (t == null) {
            throw new RuntimeException("BigNat!Tup: not a sequence: " + f);
        }
        return t;
    }

    private static Value[] elems(final Value v) {
        final TupleValue t = (TupleValue) v.toTuple();
        if (t == null) {
            throw new RuntimeException("BigNat override: not a sequence: " + v);
        }
        return t.elems;
    }

    @TLAPlusOperator(identifier = "XorV", module = "BigNat", warn = false)
    public static Value xorv(final Value a, final Value b) {
        final Value[] x = elems(a), y = elems(b);
        final Value[] r = new Value[x.length];
        for (int i = 0; i < x.length; i++) {
            r[i] = nat(big(x[i]).xor(big(y[i])));
        }
        return new TupleValue(r);
    }

    @TLAPlusOperator(identifier = "AndV", module = "BigNat", warn = false)
    public static Value andv(final Value a, final Value b) {
        final Value[] x = elems(a), y = elems(b);
        final Value[] r = new Value[x.length];
        for (int i = 0; i < x.length; i++) {
            r[i] = nat(big(x[i]).and(big(y[i])));
        }
        return new TupleValue(r);
    }

    @TLAPlusOperator(identifier = "NotV", module = "BigNat", warn = false)
    public static Value notv(final Value a, final Value w) {
        final Value[] x = elems(a);
        final BigInteger mask = BigInteger.ONE.shiftLeft(small(w)).subtract(BigInteger.ONE);
        final Value[] r = new Value[x.length];
        for (int i = 0; i < x.length; i++) {
            r[i] = nat(mask.subtract(big(x[i]).and(mask)));
        }
        return new TupleValue(r);
    }

    @TLAPlusOperator(identifier = "RotLV", module = "BigNat", warn = false)
    public static Value rotlv(final Value a, final Value ks, final Value w) {
        final Value[] x = elems(a), k = elems(ks);
        final int ww = small(w);
        final BigInteger mask = BigInteger.ONE.shiftLeft(ww).subtract(BigInteger.ONE);
        final Value[] r = new Value[x.length];
        for (int i = 0; i < x.length; i++) {
            final int kk = ((small(k[i]) % ww) + ww) % ww;
            final BigInteger v = big(x[i]).and(mask);
            r[i] = nat(v.shiftLeft(kk).or(v.shiftRight(ww - kk)).and(mask));
        }
        return new TupleValue(r);
    }

    @TLAPlusOperator(identifier = "Norm", module = "BigNat", warn = false)
    public static Value norm(final Value a) {
        return nat(big(a));
    }

    @TLAPlusOperator(identifier = "Add", module = "BigNat", warn = false)
    public static Value add(final Value a, final Value b) {
        return nat(big(a).add(big(b)));
    }

    // truncated subtraction (monus): max(a-b, 0)
    @TLAPlusOperator(identifier = "Sub", module = "BigNat", warn = false)
    public static Value sub(final Value a, final Value b) {
        final BigInteger r = big(a).subtract(big(b));
        return nat(r.signum() < 0 ? BigInteger.ZERO : r);
    }

    @TLAPlusOperator(identifier = "Mul", module = "BigNat", warn = false)
    public static Value mul(final Value a, final Value b) {
        return nat(big(a).multiply(big(b)));
    }

    // x div 0 = 0, x mod 0 = x (total)
    @TLAPlusOperator(identifier = "Div", module = "BigNat", warn = false)
    public static Value div(final Value a, final Value b) {
        final BigInteger y = big(b);
        return nat(y.signum() == 0 ? BigInteger.ZERO : big(a).divide(y));
    }

    @TLAPlusOperator(identifier = "Mod", module = "BigNat", warn = false)
    public static Value mod(final Value a, final Value b) {
        final BigInteger y = big(b);
        return nat(y.signum() == 0 ? big(a) : big(a).mod(y));
    }

    @TLAPlusOperator(identifier = "Lt", module = "BigNat", warn = false)
    public static Value lt(final Value a, final Value b) {
        return big(a).compareTo(big(b)) < 0 ? BoolValue.ValTrue : BoolValue.ValFalse;
    }

    @TLAPlusOperator(identifier = "ModAdd", module = "BigNat", warn = false)
    public static Value modadd(final Value a, final Value b, final Value m) {
        return nat(big(a).add(big(b)).mod(big(m)));
    }

    @TLAPlusOperator(identifier = "ModSub", module = "BigNat", warn = false)
    public static Value modsub(final Value a, final Value b, final Value m) {
        return nat(big(a).subtract(big(b)).mod(big(m)));
    }

    @TLAPlusOperator(identifier = "ModMul", module = "BigNat", warn = false)
    public static Value modmul(final Value a, final Value b, final Value m) {
        return nat(big(a).multiply(big(b)).mod(big(m)));
    }

    @TLAPlusOperator(identifier = "ModPow", module = "BigNat", warn = false)
    public static Value modpow(final Value a, final Value e, final Value m) {
        return nat(big(a).modPow(big(e), big(m)));
    }

    // inverse modulo m when gcd(a, m) = 1, else 0
    @TLAPlusOperator(identifier = "ModInv", module = "BigNat", warn = false)
    public static Value modinv(final Value a, final Value m) {
        final BigInteger mm = big(m);
        final BigInteger aa = big(a).mod(mm);
        if (!aa.gcd(mm).equals(BigInteger.ONE)) {
            return nat(BigInteger.ZERO);
        }
        return nat(aa.modInverse(mm));
    }

    @TLAPlusOperator(identifier = "Shl", module = "BigNat", warn = false)
    public static Value shl(final Value a, final Value k) {
        return nat(big(a).shiftLeft(small(k)));
    }

    @TLAPlusOperator(identifier = "Shr", module = "BigNat", warn = false)
    public static Value shr(final Value a, final Value k) {
        return nat(big(a).shiftRight(small(k)));
    }

    @TLAPlusOperator(identifier = "BitLen", module = "BigNat", warn = false)
    public static Value bitlen(final Value a) {
        return IntValue.gen(big(a).bitLength());
    }

    @TLAPlusOperator(identifier = "Bit", module = "BigNat", warn = false)
    public static Value bit(final Value a, final Value i) {
        return IntValue.gen(big(a).testBit(small(i)) ? 1 : 0);
    }

    @TLAPlusOperator(identifier = "BitXor", module = "BigNat", warn = false)
    public static Value bitxor(final Value a, final Value b) {
        return nat(big(a).xor(big(b)));
    }

    @TLAPlusOperator(identifier = "BitAnd", module = "BigNat", warn = false)
    public static Value bitand(final Value a, final Value b) {
        return nat(big(a).and(big(b)));
    }

    @TLAPlusOperator(identifier = "BitOr", module = "BigNat", warn = false)
    public static Value bitor(final Value a, final Value b) {
        return nat(big(a).or(big(b)));
    }

    // low w bits of a
    @TLAPlusOperator(identifier = "LowBits", module = "BigNat", warn = false)
    public static Value lowbits(final Value a, final Value w) {
        final int ww = small(w);
        return nat(big(a).and(BigInteger.ONE.shiftLeft(ww).subtract(BigInteger.ONE)));
    }

    // rotate right by k within a w-bit word
    @TLAPlusOperator(identifier = "RotR", module = "BigNat", warn = false)
    public static Value rotr(final Value a, final Value k, final Value w) {
        final int ww = small(w);
        final int kk = ((small(k) % ww) + ww) % ww;
        final BigInteger mask = BigInteger.ONE.shiftLeft(ww).subtract(BigInteger.ONE);
        final BigInteger x = big(a).and(mask);
        return nat(x.shiftRight(kk).or(x.shiftLeft(ww - kk)).and(mask));
    }

    @TLAPlusOperator(identifier = "FromInt", module = "BigNat", warn = false)
    public static Value fromint(final Value n) {
        return nat(BigInteger.valueOf(small(n)));
    }

    // value of a small natural (< 2^31) as a TLC integer
    @TLAPlusOperator(identifier = "ToInt", module = "BigNat", warn = false)
    public static Value toint(final Value a) {
        final BigInteger x = big(a);
        if (x.bitLength() > 31) {
            throw new RuntimeException("BigNat!ToInt: value does not fit a TLC integer");
        }
        return IntValue.gen(x.intValue());
    }

    // carry-less (GF(2)[z]) product
    @TLAPlusOperator(identifier = "ClMul", module = "BigNat", warn = false)
    public static Value clmul(final Value a, final Value b) {
        final BigInteger x = big(a);
        BigInteger y = big(b);
        BigInteger r = BigInteger.ZERO;
        final int n = x.bitLength();
        for (int i = 0; i < n; i++) {
            if (x.testBit(i)) {
                r = r.xor(y.shiftLeft(i));
            }
        }
        return nat(r);
    }

    // remainder of the GF(2)[z] division of a by m (m != 0)
    @TLAPlusOperator(identifier = "PolyMod", module = "BigNat", warn = false)
    public static Value polymod(final Value a, final Value m) {
        BigInteger x = big(a);
        final BigInteger mm = big(m);
        final int dm = mm.bitLength();
        if (dm == 0) {
            return nat(x);
        }
        while (x.bitLength() >= dm) {
            x = x.xor(mm.shiftLeft(x.bitLength() - dm));
        }
        return nat(x);
    }

    // inverse of a modulo m in GF(2)[z] (0 when a = 0 mod m or not invertible)
    @TLAPlusOperator(identifier = "PolyInvMod", module = "BigNat", warn = false)
    public static Value polyinvmod(final Value a, final Value m) {
        final BigInteger mm = big(m);
        BigInteger r0 = mm, r1 = pmod(big(a), mm);
        BigInteger t0 = BigInteger.ZERO, t1 = BigInteger.ONE;
        while (r1.signum() != 0) {
            // q, rem = divmod(r0, r1)
            BigInteger q = BigInteger.ZERO, x = r0;
            final int d1 = r1.bitLength();
            while (x.bitLength() >= d1) {
                final int s = x.bitLength() - d1;
                x = x.xor(r1.shiftLeft(s));
                q = q.setBit(s);
            }
            // t2 = t0 xor clmul(q, t1)
            BigInteger prod = BigInteger.ZERO;
            for (int i = 0; i < q.bitLength(); i++) {
                if (q.testBit(i)) {
                    prod = prod.xor(t1.shiftLeft(i));
                }
            }
            final BigInteger t2 = t0.xor(prod);
            r0 = r1; r1 = x; t0 = t1; t1 = t2;
        }
        if (!r0.equals(BigInteger.ONE)) {
            return nat(BigInteger.ZERO);
        }
        return nat(pmod(t0, mm));
    }

    private static BigInteger pmod(BigInteger x, final BigInteger mm) {
        final int dm = mm.bitLength();
        if (dm == 0) {
            return x;
        }
        while (x.bitLength() >= dm) {
            x = x.xor(mm.shiftLeft(x.bitLength() - dm));
        }
        return x;
    }

    // quotient of the GF(2)[z] division of a by m (0 if m = 0)
    @TLAPlusOperator(identifier = "PolyDiv", module = "BigNat", warn = false)
    public static Value polydiv(final Value a, final Value m) {
        BigInteger x = big(a);
        final BigInteger mm = big(m);
        final int dm = mm.bitLength();
        BigInteger q = BigInteger.ZERO;
        if (dm == 0) {
            return nat(q);
        }
        while (x.bitLength() >= dm) {
            final int s = x.bitLength() - dm;
            x = x.xor(mm.shiftLeft(s));
            q = q.setBit(s);
        }
        return nat(q);
    }
}
