------------------------------- MODULE FrostGen -----------------------------
(***************************************************************************)
(* Generator / design model of a FROST signing session over an abstract    *)
(* group: TLC enumerates thresholds, signer arrival orders (with           *)
(* duplicates and more arrivals than needed) and single corruptions, and   *)
(* checks the coordinator's selection rule on the abstract model; every    *)
(* complete behaviour is printed as a script replayed into the five real   *)
(* ciphersuites.                                                           *)
(***************************************************************************)
EXTENDS Naturals, Sequences, FiniteSets, TLC, Json

CONSTANTS MaxN, MaxArrivals, Sites

VARIABLES t, n, arrivals, chosen, site, phase
vars == <<t, n, arrivals, chosen, site, phase>>

Init == /\ t \in 2..MaxN /\ n \in 2..MaxN /\ t <= n
        /\ arrivals = <<>> /\ chosen = <<>> /\ site \in Sites /\ phase = "deliver"

\* a commitment from signer i reaches the coordinator (any order, duplicates allowed)
Deliver(i) == /\ phase = "deliver" /\ Len(arrivals) < MaxArrivals
              /\ arrivals' = Append(arrivals, i) /\ UNCHANGED <<t, n, chosen, site, phase>>
SetToSeq(S) == CHOOSE q \in [1..Cardinality(S) -> S] : \A i, j \in 1..Cardinality(S) : i < j => q[i] < q[j]
\* insertion of distinct identifiers in arrival order until t are present (crrl's rule: the
\* first t distinct identifiers, sorted)
RECURSIVE FirstDistinct(_, _, _)
FirstDistinct(seq, k, acc) ==
    IF k > Len(seq) \/ Cardinality(acc) = t THEN acc
    ELSE FirstDistinct(seq, k + 1, acc \cup {seq[k]})
Choose == /\ phase = "deliver" /\ Len(arrivals) >= 1
          /\ LET S == FirstDistinct(arrivals, 1, {})
             IN chosen' = IF Cardinality(S) = t THEN SetToSeq(S) ELSE <<>>
          /\ phase' = "done" /\ UNCHANGED <<t, n, arrivals, site>>
Next == (\E i \in 1..n : Deliver(i)) \/ Choose
Spec == Init /\ [][Next]_vars

\* the documented contract of choose()
ChooseOk == phase = "done" =>
              /\ (chosen = <<>>) = (Cardinality({arrivals[i] : i \in 1..Len(arrivals)}) < t)
              /\ (chosen # <<>> => /\ Len(chosen) = t
                                   /\ \A i \in 1..Len(chosen) : chosen[i] \in {arrivals[j] : j \in 1..Len(arrivals)}
                                   /\ \A i \in 1..(Len(chosen) - 1) : chosen[i] < chosen[i + 1])
Emit == phase = "done" => PrintT(<<"SCRIPT", ToJson([t |-> t, n |-> n, arrivals |-> arrivals, site |-> site])>>)
=============================================================================
