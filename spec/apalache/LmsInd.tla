-------------------------------- MODULE LmsInd -------------------------------
(***************************************************************************)
(* Unbounded companion of LmsGen.tla for Apalache: the LMS key counter     *)
(* with an RNG that may fail between the state change and the release of   *)
(* the signature, for ANY number of leaves, ANY number of calls and ANY     *)
(* number of failures.  The emitted sequence is abstracted by its maximum   *)
(* (maxE, -1 when empty) and a ghost flag `bad` raised when a leaf is       *)
(* emitted that is not above every leaf emitted before (so ~bad means the   *)
(* emitted leaves are strictly increasing, hence never reused) or is not    *)
(* below the advanced counter.  IndInv is inductive:                        *)
(*    Init => IndInv                     (--init=Init     --length=0)       *)
(*    IndInv /\ Next => IndInv'          (--init=IndInit  --length=1)       *)
(* and implies the properties LmsGen checks by enumeration for H = 3.       *)
(***************************************************************************)
EXTENDS Integers

CONSTANT
  \* @type: Int;
  Leaves
ConstInit == Leaves \in Int /\ Leaves >= 1

VARIABLES
  \* @type: Int;
  q,
  \* @type: Str;
  pc,
  \* @type: Int;
  maxE,
  \* @type: Bool;
  bad

Init == q = 0 /\ pc = "idle" /\ maxE = -1 /\ bad = FALSE
\* sign call, first half: the state is advanced before anything else happens
Advance == pc = "idle" /\ q < Leaves /\ q' = q + 1 /\ pc' = "advanced" /\ maxE' = maxE /\ bad' = bad
\* second half: the signature for leaf q - 1 is released
Emit == /\ pc = "advanced" /\ pc' = "idle" /\ q' = q
        /\ maxE' = q - 1
        /\ bad' = (bad \/ q - 1 <= maxE \/ q - 1 >= Leaves \/ q - 1 < 0)
\* the RNG fails after the state change: nothing released, the leaf stays consumed
Crash == pc = "advanced" /\ pc' = "idle" /\ q' = q /\ maxE' = maxE /\ bad' = bad
\* exhausted key: nothing happens
Exhausted == pc = "idle" /\ q = Leaves /\ q' = q /\ pc' = pc /\ maxE' = maxE /\ bad' = bad
Next == Advance \/ Emit \/ Crash \/ Exhausted

IndInv == /\ 0 <= q /\ q <= Leaves
          /\ pc \in {"idle", "advanced"}
          /\ -1 <= maxE /\ maxE < q                          \* AdvancedBeforeVisible
          /\ (pc = "advanced" => q >= 1 /\ maxE < q - 1)     \* the leaf about to be released is fresh
          /\ ~bad                                            \* StrictlyIncreasing, NoReuse, InRange
IndInit == q \in Int /\ pc \in {"idle", "advanced"} /\ maxE \in Int /\ bad \in BOOLEAN /\ IndInv
\* The wrong order (release the signature, then write the advanced state back; a failure in between loses the write):
\* Apalache finds the reuse within 4 steps, which shows that NotBad is not vacuous.
ReleaseFirst == pc = "idle" /\ q < Leaves /\ pc' = "released" /\ q' = q /\ maxE' = q /\ bad' = (bad \/ q <= maxE)
AdvanceAfter == pc = "released" /\ pc' = "idle" /\ q' = q + 1 /\ maxE' = maxE /\ bad' = bad
FailAfter == pc = "released" /\ pc' = "idle" /\ q' = q /\ maxE' = maxE /\ bad' = bad
NextReleaseFirst == ReleaseFirst \/ AdvanceAfter \/ FailAfter
NotBad == ~bad
=============================================================================
