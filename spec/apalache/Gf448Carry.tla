----------------------------- MODULE Gf448Carry -----------------------------
(***************************************************************************)
(* Full-width Apalache obligations for GF448::set_add / set_sub / set_neg  *)
(* (gf448.rs): seven 64-bit limbs, q = 2^448 - 2^224 - 1, folding rule     *)
(* 2^448 = 2^224 + 1, for ALL pairs of 448-bit limb patterns.  Generated   *)
(* by bin/gen_apalache.py from the step structure of the source (one       *)
(* definition per addcarry_u64 / subborrow_u64 call, same order).          *)
(* SubNoBorrowChain is the seeded change C01-d (third step without borrow  *)
(* propagation) and must be refuted.                                       *)
(***************************************************************************)
EXTENDS Integers

B == 18446744073709551616
H == 4294967296
Q == 726838724295606890549323807888004534353641360687318060281490199180612328166730772686396383698676545930088884461843637361053498018365439

VARIABLES
  \* @type: Int;
  a0,
  \* @type: Int;
  a1,
  \* @type: Int;
  a2,
  \* @type: Int;
  a3,
  \* @type: Int;
  a4,
  \* @type: Int;
  a5,
  \* @type: Int;
  a6,
  \* @type: Int;
  b0,
  \* @type: Int;
  b1,
  \* @type: Int;
  b2,
  \* @type: Int;
  b3,
  \* @type: Int;
  b4,
  \* @type: Int;
  b5,
  \* @type: Int;
  b6

Limb(x) == 0 <= x /\ x < B
Init == /\ a0 \in Int /\ a1 \in Int /\ a2 \in Int /\ a3 \in Int /\ a4 \in Int /\ a5 \in Int /\ a6 \in Int /\ b0 \in Int /\ b1 \in Int /\ b2 \in Int /\ b3 \in Int /\ b4 \in Int /\ b5 \in Int /\ b6 \in Int
        /\ Limb(a0) /\ Limb(a1) /\ Limb(a2) /\ Limb(a3) /\ Limb(a4) /\ Limb(a5) /\ Limb(a6) /\ Limb(b0) /\ Limb(b1) /\ Limb(b2) /\ Limb(b3) /\ Limb(b4) /\ Limb(b5) /\ Limb(b6)
Next == a0' = a0 /\ a1' = a1 /\ a2' = a2 /\ a3' = a3 /\ a4' = a4 /\ a5' = a5 /\ a6' = a6 /\ b0' = b0 /\ b1' = b1 /\ b2' = b2 /\ b3' = b3 /\ b4' = b4 /\ b5' = b5 /\ b6' = b6
Bw(x) == IF x < 0 THEN 1 ELSE 0
Val(x0, x1, x2, x3, x4, x5, x6) == x0 + B * (x1 + B * (x2 + B * (x3 + B * (x4 + B * (x5 + B * x6)))))
A == Val(a0, a1, a2, a3, a4, a5, a6)
Bv == Val(b0, b1, b2, b3, b4, b5, b6)

AddOk ==
  LET
      s1 == a0 + b0 + 0   d0 == s1 % B   c1 == s1 \div B
      s2 == a1 + b1 + c1   d1 == s2 % B   c2 == s2 \div B
      s3 == a2 + b2 + c2   d2 == s3 % B   c3 == s3 \div B
      s4 == a3 + b3 + c3   d3 == s4 % B   c4 == s4 \div B
      s5 == a4 + b4 + c4   d4 == s5 % B   c5 == s5 \div B
      s6 == a5 + b5 + c5   d5 == s6 % B   c6 == s6 \div B
      s7 == a6 + b6 + c6   d6 == s7 % B   c7 == s7 \div B
      e1 == c7
      s8 == d0 + 0 + e1   f0 == s8 % B   c8 == s8 \div B
      s9 == d1 + 0 + c8   f1 == s9 % B   c9 == s9 \div B
      s10 == d2 + 0 + c9   f2 == s10 % B   c10 == s10 \div B
      s11 == d3 + e1 * H + c10   f3 == s11 % B   c11 == s11 \div B
      s12 == d4 + 0 + c11   f4 == s12 % B   c12 == s12 \div B
      s13 == d5 + 0 + c12   f5 == s13 % B   c13 == s13 \div B
      s14 == d6 + 0 + c13   f6 == s14 % B   c14 == s14 \div B
      e2 == c14
      s15 == f0 + 0 + e2   g0 == s15 % B   c15 == s15 \div B
      s16 == f1 + 0 + c15   g1 == s16 % B   c16 == s16 \div B
      s17 == f2 + 0 + c16   g2 == s17 % B   c17 == s17 \div B
      s18 == f3 + e2 * H + c17   g3 == s18 % B   c18 == s18 \div B
  IN (Val(g0, g1, g2, g3, f4, f5, f6) - (A + Bv)) % Q = 0
SubOk ==
  LET
      s1 == a0 - (b0) - 0   d0 == s1 % B   c1 == Bw(s1)
      s2 == a1 - (b1) - c1   d1 == s2 % B   c2 == Bw(s2)
      s3 == a2 - (b2) - c2   d2 == s3 % B   c3 == Bw(s3)
      s4 == a3 - (b3) - c3   d3 == s4 % B   c4 == Bw(s4)
      s5 == a4 - (b4) - c4   d4 == s5 % B   c5 == Bw(s5)
      s6 == a5 - (b5) - c5   d5 == s6 % B   c6 == Bw(s6)
      s7 == a6 - (b6) - c6   d6 == s7 % B   c7 == Bw(s7)
      e1 == c7
      s8 == d0 - (0) - e1   f0 == s8 % B   c8 == Bw(s8)
      s9 == d1 - (0) - c8   f1 == s9 % B   c9 == Bw(s9)
      s10 == d2 - (0) - c9   f2 == s10 % B   c10 == Bw(s10)
      s11 == d3 - (e1 * H) - c10   f3 == s11 % B   c11 == Bw(s11)
      s12 == d4 - (0) - c11   f4 == s12 % B   c12 == Bw(s12)
      s13 == d5 - (0) - c12   f5 == s13 % B   c13 == Bw(s13)
      s14 == d6 - (0) - c13   f6 == s14 % B   c14 == Bw(s14)
      e2 == c14
      s15 == f0 - (0) - e2   g0 == s15 % B   c15 == Bw(s15)
      s16 == f1 - (0) - c15   g1 == s16 % B   c16 == Bw(s16)
      s17 == f2 - (0) - c16   g2 == s17 % B   c17 == Bw(s17)
      s18 == f3 - (e2 * H) - c17   g3 == s18 % B   c18 == Bw(s18)
  IN (Val(g0, g1, g2, g3, f4, f5, f6) - (A - Bv)) % Q = 0
NegOk ==
  LET
      s1 == (B - 1) - (a0) - 0   d0 == s1 % B   c1 == Bw(s1)
      s2 == (B - 1) - (a1) - c1   d1 == s2 % B   c2 == Bw(s2)
      s3 == (B - 1) - (a2) - c2   d2 == s3 % B   c3 == Bw(s3)
      s4 == (B - 1 - H) - (a3) - c3   d3 == s4 % B   c4 == Bw(s4)
      s5 == (B - 1) - (a4) - c4   d4 == s5 % B   c5 == Bw(s5)
      s6 == (B - 1) - (a5) - c5   d5 == s6 % B   c6 == Bw(s6)
      s7 == (B - 1) - (a6) - c6   d6 == s7 % B   c7 == Bw(s7)
      e1 == c7
      s8 == d0 - (0) - e1   g0 == s8 % B   c8 == Bw(s8)
      s9 == d1 - (0) - c8   g1 == s9 % B   c9 == Bw(s9)
      s10 == d2 - (0) - c9   g2 == s10 % B   c10 == Bw(s10)
      s11 == d3 - (e1 * H) - c10   g3 == s11 % B   c11 == Bw(s11)
  IN (Val(g0, g1, g2, g3, d4, d5, d6) + A) % Q = 0
SubNoBorrowChain ==
  LET
      s1 == a0 - (b0) - 0   d0 == s1 % B   c1 == Bw(s1)
      s2 == a1 - (b1) - c1   d1 == s2 % B   c2 == Bw(s2)
      s3 == a2 - (b2) - c2   d2 == s3 % B   c3 == Bw(s3)
      s4 == a3 - (b3) - c3   d3 == s4 % B   c4 == Bw(s4)
      s5 == a4 - (b4) - c4   d4 == s5 % B   c5 == Bw(s5)
      s6 == a5 - (b5) - c5   d5 == s6 % B   c6 == Bw(s6)
      s7 == a6 - (b6) - c6   d6 == s7 % B   c7 == Bw(s7)
      e1 == c7
      s8 == d0 - (0) - e1   f0 == s8 % B   c8 == Bw(s8)
      s9 == d1 - (0) - c8   f1 == s9 % B   c9 == Bw(s9)
      s10 == d2 - (0) - c9   f2 == s10 % B   c10 == Bw(s10)
      s11 == d3 - (e1 * H) - c10   f3 == s11 % B   c11 == Bw(s11)
      s12 == d4 - (0) - c11   f4 == s12 % B   c12 == Bw(s12)
      s13 == d5 - (0) - c12   f5 == s13 % B   c13 == Bw(s13)
      s14 == d6 - (0) - c13   f6 == s14 % B   c14 == Bw(s14)
      e2 == c14
      g0 == (f0 - e2) % B   g1 == f1   g2 == f2   g3 == (f3 - e2 * H) % B
  IN (Val(g0, g1, g2, g3, f4, f5, f6) - (A - Bv)) % Q = 0
=============================================================================
