----------------------------- MODULE Gf255Carry -----------------------------
(***************************************************************************)
(* Full-width companion of AlgGf255.tla for Apalache: the carry chains of  *)
(* GF255<MQ>::set_add / set_sub / set_neg (gf255_m64.rs) over four 64-bit  *)
(* limbs, for ALL 2^512 pairs of limb patterns, discharged by the SMT      *)
(* solver (linear integer arithmetic with division by constants).  TLC     *)
(* decides the same statements exhaustively at 3-bit limbs; here the       *)
(* statement is the one at the implementation's real width.                *)
(* Each obligation is an invariant of the initial states (--length=0).     *)
(***************************************************************************)
EXTENDS Integers

CONSTANTS
  \* @type: Int;
  MQ,
  \* @type: Int;
  F,
  \* @type: Int;
  Q

B == 18446744073709551616
T255 == 57896044618658097711785492504343953926634992332820282019728792003956564819968
\* GF255<MQ>: q = 2^255 - MQ, folding rule 2^256 = 2*MQ
C19 == MQ = 19 /\ F = 38 /\ Q = T255 - 19
C18651 == MQ = 18651 /\ F = 37302 /\ Q = T255 - 18651
C3957 == MQ = 3957 /\ F = 7914 /\ Q = T255 - 3957
\* GFsecp256k1 (gfsecp256k1.rs set_add / set_sub have the same three steps): q = 2^256 - (2^32 + 977), 2^256 = 2^32 + 977.
\* (MQ is unused; NegOk does not apply to this type.)
CK1 == MQ = 0 /\ F = 4294968273 /\ Q = 2 * T255 - 4294968273

VARIABLES
  \* @type: Int;
  a0,
  \* @type: Int;
  a1,
  \* @type: Int;
  a2,
  \* @type: Int;
  a3,
  \* @type: Int;
  b0,
  \* @type: Int;
  b1,
  \* @type: Int;
  b2,
  \* @type: Int;
  b3

Limb(x) == 0 <= x /\ x < B
Init == /\ a0 \in Int /\ a1 \in Int /\ a2 \in Int /\ a3 \in Int /\ b0 \in Int /\ b1 \in Int /\ b2 \in Int /\ b3 \in Int
        /\ Limb(a0) /\ Limb(a1) /\ Limb(a2) /\ Limb(a3) /\ Limb(b0) /\ Limb(b1) /\ Limb(b2) /\ Limb(b3)
Next == a0' = a0 /\ a1' = a1 /\ a2' = a2 /\ a3' = a3 /\ b0' = b0 /\ b1' = b1 /\ b2' = b2 /\ b3' = b3

Val(x0, x1, x2, x3) == x0 + B * x1 + B * B * x2 + B * B * B * x3
A == Val(a0, a1, a2, a3)
Bv == Val(b0, b1, b2, b3)
Bw(x) == IF x < 0 THEN 1 ELSE 0       \* borrow out of a limb subtraction

\* set_add: add with carry; on an output carry add 2*MQ; on a second carry add 2*MQ to the low limb only
AddOk ==
  LET s0 == a0 + b0            c0 == s0 \div B   d0 == s0 % B
      s1 == a1 + b1 + c0       c1 == s1 \div B   d1 == s1 % B
      s2 == a2 + b2 + c1       c2 == s2 \div B   d2 == s2 % B
      s3 == a3 + b3 + c2       c3 == s3 \div B   d3 == s3 % B
      f0 == d0 + c3 * F   e0 == f0 \div B   g0 == f0 % B
      f1 == d1 + e0            e1 == f1 \div B   g1 == f1 % B
      f2 == d2 + e1            e2 == f2 \div B   g2 == f2 % B
      f3 == d3 + e2            e3 == f3 \div B   g3 == f3 % B
      h0 == (g0 + e3 * F) % B
  IN (Val(h0, g1, g2, g3) - (A + Bv)) % Q = 0
\* set_sub: subtract with borrow; on an output borrow subtract 2*MQ; on a second borrow subtract 2*MQ from the low limb only
SubOk ==
  LET s0 == a0 - b0            c0 == Bw(s0)   d0 == s0 % B
      s1 == a1 - b1 - c0       c1 == Bw(s1)   d1 == s1 % B
      s2 == a2 - b2 - c1       c2 == Bw(s2)   d2 == s2 % B
      s3 == a3 - b3 - c2       c3 == Bw(s3)   d3 == s3 % B
      f0 == d0 - c3 * F   e0 == Bw(f0)   g0 == f0 % B
      f1 == d1 - e0            e1 == Bw(f1)   g1 == f1 % B
      f2 == d2 - e1            e2 == Bw(f2)   g2 == f2 % B
      f3 == d3 - e2            e3 == Bw(f3)   g3 == f3 % B
      h0 == (g0 - e3 * F) % B
  IN (Val(h0, g1, g2, g3) - (A - Bv)) % Q = 0
\* set_neg: 2q - a = (2^256 - 2*MQ) - a; if that is negative add q back
NegOk ==
  LET s0 == (B - 2 * MQ) - a0        c0 == Bw(s0)   d0 == s0 % B
      s1 == (B - 1) - a1 - c0        c1 == Bw(s1)   d1 == s1 % B
      s2 == (B - 1) - a2 - c1        c2 == Bw(s2)   d2 == s2 % B
      s3 == (B - 1) - a3 - c2        c3 == Bw(s3)   d3 == s3 % B
      f0 == d0 + c3 * (B - MQ)             e0 == f0 \div B   g0 == f0 % B
      f1 == d1 + c3 * (B - 1) + e0         e1 == f1 \div B   g1 == f1 % B
      f2 == d2 + c3 * (B - 1) + e1         e2 == f2 \div B   g2 == f2 % B
      f3 == (d3 + c3 * (B \div 2 - 1) + e2) % B
  IN (Val(g0, g1, g2, f3) + A) % Q = 0
\* the variant that failed at toy width must fail here too: second fold of set_sub with the wrong sign (seed C01-a)
SubWrongFoldSign ==
  LET s0 == a0 - b0            c0 == Bw(s0)   d0 == s0 % B
      s1 == a1 - b1 - c0       c1 == Bw(s1)   d1 == s1 % B
      s2 == a2 - b2 - c1       c2 == Bw(s2)   d2 == s2 % B
      s3 == a3 - b3 - c2       c3 == Bw(s3)   d3 == s3 % B
      f0 == d0 - c3 * F   e0 == Bw(f0)   g0 == f0 % B
      f1 == d1 - e0            e1 == Bw(f1)   g1 == f1 % B
      f2 == d2 - e1            e2 == Bw(f2)   g2 == f2 % B
      f3 == d3 - e2            e3 == Bw(f3)   g3 == f3 % B
      h0 == (g0 + e3 * F) % B
  IN (Val(h0, g1, g2, g3) - (A - Bv)) % Q = 0
\* set_mul2: extract the top 2 bits, shift left by 1 (clearing them), add them back times MQ
Mul2Ok ==
  LET tt == a3 \div 4611686018427387904
      d0 == (a0 * 2) % B
      d1 == (a0 \div 9223372036854775808) + ((a1 * 2) % B)
      d2 == (a1 \div 9223372036854775808) + ((a2 * 2) % B)
      d3 == (a2 \div 9223372036854775808) + ((a3 * 2) % 9223372036854775808)
      s0 == d0 + tt * MQ   c0 == s0 \div B   g0 == s0 % B
      s1 == d1 + c0        c1 == s1 \div B   g1 == s1 % B
      s2 == d2 + c1        c2 == s2 \div B   g2 == s2 % B
      g3 == (d3 + c2) % B
  IN (Val(g0, g1, g2, g3) - 2 * A) % Q = 0
\* set_mul4: extract the top 3 bits, shift left by 2 (clearing them), add them back times MQ
Mul4Ok ==
  LET tt == a3 \div 2305843009213693952
      d0 == (a0 * 4) % B
      d1 == (a0 \div 4611686018427387904) + ((a1 * 4) % B)
      d2 == (a1 \div 4611686018427387904) + ((a2 * 4) % B)
      d3 == (a2 \div 4611686018427387904) + ((a3 * 4) % 9223372036854775808)
      s0 == d0 + tt * MQ   c0 == s0 \div B   g0 == s0 % B
      s1 == d1 + c0        c1 == s1 \div B   g1 == s1 % B
      s2 == d2 + c1        c2 == s2 \div B   g2 == s2 % B
      g3 == (d3 + c2) % B
  IN (Val(g0, g1, g2, g3) - 4 * A) % Q = 0
\* set_mul8: extract the top 4 bits, shift left by 3 (clearing them), add them back times MQ
Mul8Ok ==
  LET tt == a3 \div 1152921504606846976
      d0 == (a0 * 8) % B
      d1 == (a0 \div 2305843009213693952) + ((a1 * 8) % B)
      d2 == (a1 \div 2305843009213693952) + ((a2 * 8) % B)
      d3 == (a2 \div 2305843009213693952) + ((a3 * 8) % 9223372036854775808)
      s0 == d0 + tt * MQ   c0 == s0 \div B   g0 == s0 % B
      s1 == d1 + c0        c1 == s1 \div B   g1 == s1 % B
      s2 == d2 + c1        c2 == s2 \div B   g2 == s2 % B
      g3 == (d3 + c2) % B
  IN (Val(g0, g1, g2, g3) - 8 * A) % Q = 0
\* set_mul16: extract the top 5 bits, shift left by 4 (clearing them), add them back times MQ
Mul16Ok ==
  LET tt == a3 \div 576460752303423488
      d0 == (a0 * 16) % B
      d1 == (a0 \div 1152921504606846976) + ((a1 * 16) % B)
      d2 == (a1 \div 1152921504606846976) + ((a2 * 16) % B)
      d3 == (a2 \div 1152921504606846976) + ((a3 * 16) % 9223372036854775808)
      s0 == d0 + tt * MQ   c0 == s0 \div B   g0 == s0 % B
      s1 == d1 + c0        c1 == s1 \div B   g1 == s1 % B
      s2 == d2 + c1        c2 == s2 \div B   g2 == s2 % B
      g3 == (d3 + c2) % B
  IN (Val(g0, g1, g2, g3) - 16 * A) % Q = 0
\* set_mul32: extract the top 6 bits, shift left by 5 (clearing them), add them back times MQ
Mul32Ok ==
  LET tt == a3 \div 288230376151711744
      d0 == (a0 * 32) % B
      d1 == (a0 \div 576460752303423488) + ((a1 * 32) % B)
      d2 == (a1 \div 576460752303423488) + ((a2 * 32) % B)
      d3 == (a2 \div 576460752303423488) + ((a3 * 32) % 9223372036854775808)
      s0 == d0 + tt * MQ   c0 == s0 \div B   g0 == s0 % B
      s1 == d1 + c0        c1 == s1 \div B   g1 == s1 % B
      s2 == d2 + c1        c2 == s2 \div B   g2 == s2 % B
      g3 == (d3 + c2) % B
  IN (Val(g0, g1, g2, g3) - 32 * A) % Q = 0
=============================================================================
