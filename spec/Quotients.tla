------------------------------ MODULE Quotients -----------------------------
(***************************************************************************)
(* The prime-order group abstractions built on curves with a cofactor:     *)
(*  - ristretto255 = edwards25519 / E[4] and decaf448 = edwards448 / E[2]  *)
(*    with the RFC 9496 encodings and element-derivation maps;             *)
(*  - jq255e / jq255s = E / <N> for the double-odd curves                  *)
(*    y^2 = x(x^2 + a x + b), N = (0, 0), with the (e, u) encoding of the  *)
(*    crate documentation (u = x/y, e = (x^2 - b)/(x^2 + a x + b)).        *)
(* An abstract element is a coset, represented by any of its curve points. *)
(***************************************************************************)
EXTENDS PointCodec

IsNeg(x) == Bit(x, 0) = 1                  \* RFC 9496 IS_NEGATIVE
Abs(q, x) == IF IsNeg(x) THEN FNeg(q, x) ELSE x
M1(q) == FNeg(q, One)

(* ============================ ristretto255 ============================== *)
RP == Q25519
RD == D25519
RSqrtM1 == SqrtM1(RP)
\* SQRT_RATIO_M1(u, v) -> <<was_square, r>>
RSqrtRatio(u, v) ==
    LET p == RP
        v3 == FMul(p, FSq(p, v), v)
        v7 == FMul(p, FSq(p, v3), v)
        r0 == FMul(p, FMul(p, u, v3), ModPow(FMul(p, u, v7), Shr(Sub(p, <<5>>), 3), p))
        check == FMul(p, v, FSq(p, r0))
        cs == check = u
        fl == check = FNeg(p, u)
        fli == check = FNeg(p, FMul(p, u, RSqrtM1))
        r1 == IF fl \/ fli THEN FMul(p, r0, RSqrtM1) ELSE r0
    IN <<cs \/ fl, Abs(p, r1)>>
RInvSqrtAMinusD == RSqrtRatio(One, FSub(RP, M1(RP), RD))[2]
\* the odd (negative) root of a*d - 1 = -d - 1
RSqrtADMinusOne == LET r == FSqrt(RP, FSub(RP, FNeg(RP, RD), One))[2]
                   IN IF IsNeg(r) THEN r ELSE FNeg(RP, r)

RistDecode(b) ==
    IF Len(b) # 32 THEN <<FALSE, TedNeutral>>
    ELSE LET p == RP
             s == FromBytesLE(b)
         IN IF ~Lt(s, p) \/ IsNeg(s) THEN <<FALSE, TedNeutral>>
            ELSE LET ss == FSq(p, s)
                     u1 == FSub(p, One, ss)
                     u2 == FAdd(p, One, ss)
                     u2s == FSq(p, u2)
                     v == FSub(p, FNeg(p, FMul(p, RD, FSq(p, u1))), u2s)
                     sr == RSqrtRatio(One, FMul(p, v, u2s))
                     dx == FMul(p, sr[2], u2)
                     dy == FMul(p, FMul(p, sr[2], dx), v)
                     x == Abs(p, FMul(p, FMulK(p, s, Two), dx))
                     y == FMul(p, u1, dy)
                     t == FMul(p, x, y)
                 IN IF ~sr[1] \/ IsNeg(t) \/ y = Zero THEN <<FALSE, TedNeutral>>
                    ELSE <<TRUE, <<x, y>>>>
RistEncode(P) ==
    LET p == RP
        x0 == P[1]   y0 == P[2]   t0 == FMul(p, P[1], P[2])       \* z0 = 1
        u1 == FMul(p, FAdd(p, One, y0), FSub(p, One, y0))
        u2 == FMul(p, x0, y0)
        inv == RSqrtRatio(One, FMul(p, u1, FSq(p, u2)))[2]
        d1 == FMul(p, inv, u1)
        d2 == FMul(p, inv, u2)
        zi == FMul(p, FMul(p, d1, d2), t0)
        rot == IsNeg(FMul(p, t0, zi))
        x == IF rot THEN FMul(p, y0, RSqrtM1) ELSE x0
        y1 == IF rot THEN FMul(p, x0, RSqrtM1) ELSE y0
        di == IF rot THEN FMul(p, d1, RInvSqrtAMinusD) ELSE d2
        y == IF IsNeg(FMul(p, x, zi)) THEN FNeg(p, y1) ELSE y1
    IN ToBytesLE(Abs(p, FMul(p, di, FSub(p, One, y))), 32)
\* RFC 9496 4.3.4 MAP on a field element t
RistMap(t) ==
    LET p == RP
        r == FMul(p, RSqrtM1, FSq(p, t))
        u == FMul(p, FAdd(p, r, One), FSub(p, One, FSq(p, RD)))
        v == FMul(p, FSub(p, M1(p), FMul(p, r, RD)), FAdd(p, r, RD))
        sr == RSqrtRatio(u, v)
        sp == FNeg(p, Abs(p, FMul(p, sr[2], t)))
        s == IF sr[1] THEN sr[2] ELSE sp
        c == IF sr[1] THEN M1(p) ELSE r
        n == FSub(p, FMul(p, FMul(p, c, FSub(p, r, One)), FSq(p, FSub(p, RD, One))), v)
        w0 == FMul(p, FMulK(p, s, Two), v)
        w1 == FMul(p, n, RSqrtADMinusOne)
        w2 == FSub(p, One, FSq(p, s))
        w3 == FAdd(p, One, FSq(p, s))
    IN \* (w0*w3 : w2*w1 : w1*w3 : w0*w2) in affine form
       <<FDiv(p, FMul(p, w0, w3), FMul(p, w1, w3)), FDiv(p, FMul(p, w2, w1), FMul(p, w1, w3))>>
RistOneWayMap(b) ==      \* 64 bytes
    LET t1 == Mod(LowBits(FromBytesLE(SubSeq(b, 1, 32)), 255), RP)
        t2 == Mod(LowBits(FromBytesLE(SubSeq(b, 33, 64)), 255), RP)
    IN TedAdd(Ed25519, RistMap(t1), RistMap(t2))

(* =============================== decaf448 =============================== *)
DP == Q448
DD == D448
\* SQRT_RATIO_M1 for p = 3 mod 4
DSqrtRatio(u, v) ==
    LET p == DP
        r == FMul(p, u, ModPow(FMul(p, u, v), Shr(Sub(p, Three), 2), p))
    IN <<FMul(p, v, FSq(p, r)) = u, Abs(p, r)>>
DOneMinusD == FSub(DP, One, DD)
DOneMinusTwoD == FSub(DP, One, FMulK(DP, DD, Two))
DSqrtMinusD == Abs(DP, FSqrt(DP, FNeg(DP, DD))[2])
DInvSqrtMinusD == FInv(DP, DSqrtMinusD)
DecafDecode(b) ==
    IF Len(b) # 56 THEN <<FALSE, TedNeutral>>
    ELSE LET p == DP
             s == FromBytesLE(b)
         IN IF ~Lt(s, p) \/ IsNeg(s) THEN <<FALSE, TedNeutral>>
            ELSE LET ss == FSq(p, s)
                     u1 == FAdd(p, One, ss)
                     u2 == FSub(p, FSq(p, u1), FMul(p, FMulK(p, DD, <<4>>), ss))
                     sr == DSqrtRatio(One, FMul(p, u2, FSq(p, u1)))
                     u3 == Abs(p, FMul(p, FMul(p, FMul(p, FMulK(p, s, Two), sr[2]), u1), DSqrtMinusD))
                     x == FMul(p, FMul(p, FMul(p, u3, sr[2]), u2), DInvSqrtMinusD)
                     y == FMul(p, FMul(p, FSub(p, One, ss), sr[2]), u1)
                 IN IF ~sr[1] THEN <<FALSE, TedNeutral>> ELSE <<TRUE, <<x, y>>>>
DecafEncode(P) ==
    LET p == DP
        x0 == P[1]   t0 == FMul(p, P[1], P[2])                     \* z0 = 1
        u1 == FMul(p, FAdd(p, x0, t0), FSub(p, x0, t0))
        inv == DSqrtRatio(One, FMul(p, FMul(p, u1, DOneMinusD), FSq(p, x0)))[2]
        ratio == Abs(p, FMul(p, FMul(p, inv, u1), DSqrtMinusD))
        u2 == FSub(p, FMul(p, DInvSqrtMinusD, ratio), t0)
    IN ToBytesLE(Abs(p, FMul(p, FMul(p, FMul(p, DOneMinusD, inv), x0), u2)), 56)
DecafMap(t) ==
    LET p == DP
        r == FNeg(p, FSq(p, t))
        u0 == FMul(p, DD, FSub(p, r, One))
        u1 == FMul(p, FAdd(p, u0, One), FSub(p, u0, r))
        sr == DSqrtRatio(DOneMinusTwoD, FMul(p, FAdd(p, r, One), u1))
        vp == IF sr[1] THEN sr[2] ELSE FMul(p, t, sr[2])
        sgn == IF sr[1] THEN One ELSE M1(p)
        s == FMul(p, vp, FAdd(p, r, One))
        ss == FSq(p, s)
        w0 == FMulK(p, Abs(p, s), Two)
        w1 == FAdd(p, ss, One)
        w2 == FSub(p, ss, One)
        w3 == FAdd(p, FMul(p, FMul(p, FMul(p, vp, s), FSub(p, r, One)), DOneMinusTwoD), sgn)
    IN <<FDiv(p, FMul(p, w0, w3), FMul(p, w1, w3)), FDiv(p, FMul(p, w2, w1), FMul(p, w1, w3))>>
DecafOneWayMap(b) ==     \* 112 bytes
    TedAdd(Ed448, DecafMap(Mod(FromBytesLE(SubSeq(b, 1, 56)), DP)),
                  DecafMap(Mod(FromBytesLE(SubSeq(b, 57, 112)), DP)))
DecafBase == TedAdd(Ed448, Ed448.G, Ed448.G)      \* twice the RFC 8032 base point

(* ============================ jq255e / jq255s =========================== *)
JqA(C) == C.a2
JqB(C) == C.a4
JqN == <<Zero, Zero>>
\* (e, u) coordinates of a curve point
JqEU(C, P) ==
    IF IsInf(P) THEN <<One, Zero>>
    ELSE IF P = JqN THEN <<M1(C.p), Zero>>
    ELSE LET p == C.p
             xx == FSq(p, P[1])
         IN <<FDiv(p, FSub(p, xx, JqB(C)), FAdd(p, FAdd(p, xx, FMul(p, JqA(C), P[1])), JqB(C))),
              FDiv(p, P[1], P[2])>>
JqEncode(C, P) == LET eu == JqEU(C, P)
                  IN ToBytesLE(IF IsNeg(eu[1]) THEN FNeg(C.p, eu[2]) ELSE eu[2], 32)
\* point with coordinates (e, u), u # 0:  x = ((1 + e)/u^2 - a)/2, y = x/u
\* (x = 0 would require u = 0 on both curves)
JqFromEU(C, e, u) ==
    LET p == C.p
        x == FHalf(p, FSub(p, FDiv(p, FAdd(p, One, e), FSq(p, u)), JqA(C)))
    IN <<x, FDiv(p, x, u)>>
JqDecode(C, b) ==
    IF Len(b) # 32 THEN <<FALSE, Inf>>
    ELSE LET p == C.p
             u == FromBytesLE(b)
         IN IF ~Lt(u, p) THEN <<FALSE, Inf>>
            ELSE IF u = Zero THEN <<TRUE, Inf>>
            ELSE LET uu == FSq(p, u)
                     a == JqA(C)
                     \* ee = (a^2 - 4b) u^4 - 2a u^2 + 1
                     ee == FAdd(p, FSub(p, FMul(p, FSub(p, FSq(p, a), FMulK(p, JqB(C), <<4>>)), FSq(p, uu)),
                                        FMulK(p, FMul(p, a, uu), Two)), One)
                     sr == FSqrt(p, ee)
                 IN IF ~sr[1] THEN <<FALSE, Inf>>
                    ELSE <<TRUE, JqFromEU(C, Abs(p, sr[2]), u)>>
Jq255e == [kind |-> "w", p |-> Q255E, a2 |-> Zero, a4 |-> FNeg(Q255E, Two), a6 |-> Zero,
           n |-> RJQ255E, h |-> 2, G |-> <<Two, Two>>]
Jq255sCurve == [kind |-> "w", p |-> Q255S, a2 |-> M1(Q255S), a4 |-> FHalf(Q255S, One), a6 |-> Zero,
                n |-> RJQ255S, h |-> 2, G |-> <<Zero, Zero>>]
Jq255s == [Jq255sCurve EXCEPT !.G = JqDecode(Jq255sCurve, ToBytesLE(Three, 32))[2]]
=============================================================================
