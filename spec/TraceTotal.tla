----------------------------- MODULE TraceTotal -----------------------------
(***************************************************************************)
(* Totality (C19): every function that consumes untrusted bytes or public  *)
(* values is total on its documented domain.  The specification gives the  *)
(* documented domains (InDomain) and the acceptance rule: a call inside    *)
(* its domain must return ("ok"), and any status word it returns is        *)
(* exactly 0x00000000 ("zero") or 0xFFFFFFFF ("ones").  A recorded panic   *)
(* or watchdog timeout matches no transition.                              *)
(***************************************************************************)
EXTENDS Naturals, Sequences, TLC, Json, IOUtils

Rec == ndJsonDeserialize(IOEnv.TRACE)
N == Len(Rec)
VARIABLES l, calls
vars == <<l, calls>>
e == Rec[l]
Chk(ok) == IF ok THEN TRUE ELSE PrintT(<<"MISMATCH", l, e.op>>)

\* documented preconditions: byte-string arguments may have any length and content;
\* the only restricted public argument is the number of truncated bits
InDomain == IF e.fn \in {"ed25519::verify_trunc_raw", "p256::verify_trunc_hash"} THEN e.len \in 8..32 ELSE TRUE
StatusOk == e.st \in {"ones", "zero", "none"}

Init == l = 1 /\ calls = 0
DoInit == l <= N /\ e.op = "init" /\ l' = l + 1 /\ UNCHANGED calls
DoCall == /\ l <= N /\ e.op = "total"
          /\ Chk(InDomain => (e.res = "ok" /\ StatusOk))
          /\ l' = l + 1 /\ calls' = calls + 1
Next == DoInit \/ DoCall
Spec == Init /\ [][Next]_vars
Consumed == TLCGet("stats").diameter - 1
TraceDone == PrintT(<<"TRACE_CONSUMED", Consumed, N>>) /\ Consumed = N
=============================================================================
