------------------------------- MODULE Fields -------------------------------
(***************************************************************************)
(* The field and scalar types crrl exports (and the three extra ModInt256  *)
(* instantiations the conformance harness adds), as parameter records:     *)
(*   q     modulus                                                         *)
(*   len   length of the canonical encoding accepted by strict decoding    *)
(*   olen  length produced by `encode`                                     *)
(*   len32 TRUE when the type also has the fixed 32-byte codec             *)
(***************************************************************************)
EXTENDS Consts, BigNat

FT(q, len, olen) == [q |-> q, len |-> len, olen |-> olen]

FieldTable ==
  [ GF25519     |-> FT(Q25519, 32, 32),
    GF255e      |-> FT(Q255E, 32, 32),
    GF255s      |-> FT(Q255S, 32, 32),
    GFp256      |-> FT(QP256, 32, 32),
    GFsecp256k1 |-> FT(QSECP256K1, 32, 32),
    GF448       |-> FT(Q448, 56, 56),
    Sc25519     |-> FT(L25519, 32, 32),
    ScP256      |-> FT(NP256, 32, 32),
    ScSecp256k1 |-> FT(NSECP256K1, 32, 32),
    ScJq255e    |-> FT(RJQ255E, 32, 32),
    ScJq255s    |-> FT(RJQ255S, 32, 32),
    ScGls254    |-> FT(RGLS254, 32, 32),
    Sc448       |-> FT(L448, 56, 56),
    MSpec193    |-> FT(MSPEC193, 25, 32),
    MSpec255    |-> FT(MSPEC255, 32, 32),
    MSpec256    |-> FT(MSPEC256, 32, 32),
    GG130       |-> FT(GG130, 17, 17),
    GG256       |-> FT(GG256, 32, 32),
    GG384       |-> FT(GG384, 48, 48),
    GG512       |-> FT(GG512, 64, 64),
    GGC448      |-> FT(Q448, 56, 56),
    GGP256      |-> FT(QP256, 32, 32),
    GG25519     |-> FT(Q25519, 32, 32),
    MI200       |-> FT(MI200, 25, 32),
    MI208       |-> FT(MI208, 26, 32),
    MI216       |-> FT(MI216, 27, 32),
    MI224       |-> FT(MI224, 28, 32),
    MI232       |-> FT(MI232, 29, 32),
    MI240       |-> FT(MI240, 30, 32),
    MI248       |-> FT(MI248, 31, 32),
    MI241       |-> FT(MI241, 31, 32) ]

\* documented correction range of the 128-bit fraction split (src/backend/mod.rs)
SplitM(q) == IF Le(q, NMAX253) THEN 0 ELSE IF Le(q, NMAX255) THEN 1 ELSE 2
=============================================================================
