----------------------------- MODULE PointCodec -----------------------------
(***************************************************************************)
(* Wire formats of group elements, written from the standards:             *)
(*  - RFC 8032 compressed Edwards points (32 bytes / 57 bytes)             *)
(*  - SEC1 compressed (33) / uncompressed (65) / point at infinity (0x00); *)
(*    crrl's fixed-length encoders emit all zeros for the point at         *)
(*    infinity, which its decoders reject (documented)                     *)
(* Decoders return <<ok, P>>.                                              *)
(***************************************************************************)
EXTENDS Curves

Fail(C) == <<FALSE, Neutral(C)>>

(* ------------------------------- RFC 8032 -------------------------------- *)
\* len = 32 (Ed25519: sign bit is bit 255) or 57 (Ed448: sign is bit 7 of the last byte)
EdEncode(C, len, P) ==
    LET yb == ToBytesLE(P[2], len)
    IN [yb EXCEPT ![len] = yb[len] + 128 * Bit(P[1], 0)]
EdDecode(C, len, b) ==
    IF Len(b) # len THEN Fail(C)
    ELSE LET sign == b[len] \div 128
             yb == [b EXCEPT ![len] = b[len] % 128]
             y == FromBytesLE(yb)
             p == C.p
         IN IF ~Lt(y, p) THEN Fail(C)
            ELSE LET yy == FSq(p, y)
                     \* a*x^2 + y^2 = 1 + d*x^2*y^2  =>  x^2 = (y^2 - 1) / (d*y^2 - a)
                     den == FSub(p, FMul(p, C.d, yy), C.a)
                     xx == FDiv(p, FSub(p, yy, One), den)
                     sr == FSqrt(p, xx)
                 IN IF den = Zero \/ ~sr[1] THEN Fail(C)
                    ELSE IF sr[2] = Zero /\ sign = 1 THEN Fail(C)
                    ELSE <<TRUE, <<WithParity(p, sr[2], sign), y>>>>

(* --------------------------------- SEC1 ---------------------------------- *)
WRhs(C, x) == LET p == C.p IN FAdd(p, FMul(p, FAdd(p, FMul(p, FAdd(p, x, C.a2), x), C.a4), x), C.a6)
Sec1EncodeU(C, P) == IF IsInf(P) THEN [i \in 1..65 |-> 0]
                     ELSE <<4>> \o ToBytesBE(P[1], 32) \o ToBytesBE(P[2], 32)
Sec1EncodeC(C, P) == IF IsInf(P) THEN [i \in 1..33 |-> 0]
                     ELSE <<2 + Bit(P[2], 0)>> \o ToBytesBE(P[1], 32)
Sec1Decode(C, b) ==
    IF Len(b) = 1 THEN (IF b[1] = 0 THEN <<TRUE, Inf>> ELSE Fail(C))
    ELSE IF Len(b) = 33 /\ b[1] \in {2, 3}
    THEN LET x == FromBytesBE(SubSeq(b, 2, 33))
         IN IF ~Lt(x, C.p) THEN Fail(C)
            ELSE LET sr == FSqrt(C.p, WRhs(C, x))
                 IN IF ~sr[1] THEN Fail(C)
                    ELSE <<TRUE, <<x, WithParity(C.p, sr[2], b[1] - 2)>>>>
    ELSE IF Len(b) = 65 /\ b[1] = 4
    THEN LET x == FromBytesBE(SubSeq(b, 2, 33))
             y == FromBytesBE(SubSeq(b, 34, 65))
         IN IF Lt(x, C.p) /\ Lt(y, C.p) /\ WOn(C, <<x, y>>) THEN <<TRUE, <<x, y>>>> ELSE Fail(C)
    ELSE Fail(C)
=============================================================================
