------------------------------- MODULE Blake2s ------------------------------
(***************************************************************************)
(* RFC 7693 BLAKE2s: output length 1..32, optional key of 0..32 bytes.     *)
(***************************************************************************)
EXTENDS BigNat, Consts, Naturals, Sequences

IV == SHA_IV256        \* RFC 7693 section 2.6: same as the SHA-256 IV

SIGMA == << <<0, 1, 2, 3, 4, 5, 6, 7, 8, 9, 10, 11, 12, 13, 14, 15>>,
            <<14, 10, 4, 8, 9, 15, 13, 6, 1, 12, 0, 2, 11, 7, 5, 3>>,
            <<11, 8, 12, 0, 5, 2, 15, 13, 10, 14, 3, 6, 7, 1, 9, 4>>,
            <<7, 9, 3, 1, 13, 12, 11, 14, 2, 6, 5, 10, 4, 0, 15, 8>>,
            <<9, 0, 5, 7, 2, 4, 10, 15, 14, 1, 11, 12, 6, 8, 3, 13>>,
            <<2, 12, 6, 10, 0, 11, 8, 3, 4, 13, 7, 5, 15, 14, 1, 9>>,
            <<12, 5, 1, 15, 14, 13, 4, 10, 0, 7, 6, 3, 9, 2, 8, 11>>,
            <<13, 11, 7, 14, 12, 1, 3, 9, 5, 0, 15, 4, 8, 6, 2, 10>>,
            <<6, 15, 14, 9, 11, 3, 0, 8, 12, 2, 13, 7, 1, 4, 10, 5>>,
            <<10, 2, 8, 4, 7, 6, 1, 5, 15, 11, 9, 14, 3, 12, 13, 0>> >>

A3(a, b, c) == LowBits(Add(Add(a, b), c), 32)
\* mixing function G on indices a,b,c,d (0-based) of v with message words x, y
G(v, a, b, c, d, x, y) ==
    LET va1 == A3(v[a + 1], v[b + 1], x)
        vd1 == RotR(BitXor(v[d + 1], va1), 16, 32)
        vc1 == AddW(v[c + 1], vd1, 32)
        vb1 == RotR(BitXor(v[b + 1], vc1), 12, 32)
        va2 == A3(va1, vb1, y)
        vd2 == RotR(BitXor(vd1, va2), 8, 32)
        vc2 == AddW(vc1, vd2, 32)
        vb2 == RotR(BitXor(vb1, vc2), 7, 32)
    IN [v EXCEPT ![a + 1] = va2, ![b + 1] = vb2, ![c + 1] = vc2, ![d + 1] = vd2]

RoundF(v, m, r) ==
    LET s == SIGMA[(r % 10) + 1]
        M(i) == m[s[i + 1] + 1]
        v1 == G(v, 0, 4, 8, 12, M(0), M(1))
        v2 == G(v1, 1, 5, 9, 13, M(2), M(3))
        v3 == G(v2, 2, 6, 10, 14, M(4), M(5))
        v4 == G(v3, 3, 7, 11, 15, M(6), M(7))
        v5 == G(v4, 0, 5, 10, 15, M(8), M(9))
        v6 == G(v5, 1, 6, 11, 12, M(10), M(11))
        v7 == G(v6, 2, 7, 8, 13, M(12), M(13))
    IN G(v7, 3, 4, 9, 14, M(14), M(15))
RECURSIVE RoundsF(_, _, _)
RoundsF(v, m, r) == IF r = 10 THEN v ELSE RoundsF(RoundF(v, m, r), m, r + 1)

\* compression FX(h, block, tt, last): tt is the 64-bit byte counter (a BigNat); F takes it as a small integer
FX(h, block, tt, last) ==
    LET m  == Tup([i \in 1..16 |-> FromBytesLE(SubSeq(block, 4 * (i - 1) + 1, 4 * i))])
        v0 == Tup([i \in 1..16 |-> IF i <= 8 THEN h[i] ELSE IV[i - 8]])
        v1 == [v0 EXCEPT ![13] = BitXor(v0[13], LowBits(tt, 32)),
                         ![14] = BitXor(v0[14], Shr(tt, 32)),
                         ![15] = IF last THEN NotW(v0[15], 32) ELSE v0[15]]
        v  == RoundsF(v1, m, 0)
    IN Tup([i \in 1..8 |-> BitXor(BitXor(h[i], v[i]), v[i + 8])])

F(h, block, t, last) == FX(h, block, FromInt(t), last)

PadBlock(b) == Tup(b \o [i \in 1..(64 - Len(b)) |-> 0])

\* data = (key block if keyed) || message; at least one block, last block flagged
RECURSIVE Blocks(_, _, _)
Blocks(h, data, t) ==
    IF Len(data) <= 64 THEN F(h, PadBlock(data), t + Len(data), TRUE)
    ELSE Blocks(F(h, SubSeq(data, 1, 64), t + 64, FALSE), SubSeq(data, 65, Len(data)), t + 64)

\* The same with counter advances (verification hook verif_skip_blocks): skips is a sequence of <<pos, extra>>, meaning
\* that after pos > 0 bytes of data (key block included) had been absorbed the counter was advanced by extra (a BigNat).
\* A block is compressed when data beyond it arrives (or at finalization), so the block that ends at byte e sees every
\* advance made at a position <= e.
RECURSIVE ExtraAt(_, _, _)
ExtraAt(skips, e, i) == IF i > Len(skips) THEN Zero
                        ELSE Add(IF skips[i][1] <= e THEN skips[i][2] ELSE Zero, ExtraAt(skips, e, i + 1))
CtrAt(skips, e) == LowBits(Add(FromInt(e), ExtraAt(skips, e, 1)), 64)
RECURSIVE BlocksX(_, _, _, _)
BlocksX(h, data, t, skips) ==
    IF Len(data) <= 64 THEN FX(h, PadBlock(data), CtrAt(skips, t + Len(data)), TRUE)
    ELSE BlocksX(FX(h, SubSeq(data, 1, 64), CtrAt(skips, t + 64), FALSE), SubSeq(data, 65, Len(data)), t + 64, skips)

Blake2sX(msg, key, outlen, skips) ==
    LET p0 == FromInt(outlen + 256 * Len(key) + 65536 + 16777216)
        h0 == Tup([i \in 1..8 |-> IF i = 1 THEN BitXor(IV[1], p0) ELSE IV[i]])
        data == IF Len(key) > 0 THEN PadBlock(key) \o msg ELSE msg
        h  == BlocksX(h0, data, 0, skips)
        RECURSIVE Cat(_)
        Cat(i) == IF i > 8 THEN <<>> ELSE ToBytesLE(h[i], 4) \o Cat(i + 1)
    IN SubSeq(Cat(1), 1, outlen)

Blake2s(msg, key, outlen) ==
    LET p0 == FromInt(outlen + 256 * Len(key) + 65536 + 16777216)   \* 0x0101kknn
        h0 == Tup([i \in 1..8 |-> IF i = 1 THEN BitXor(IV[1], p0) ELSE IV[i]])
        data == IF Len(key) > 0 THEN PadBlock(key) \o msg ELSE msg
        h  == Blocks(h0, data, 0)
        RECURSIVE Cat(_)
        Cat(i) == IF i > 8 THEN <<>> ELSE ToBytesLE(h[i], 4) \o Cat(i + 1)
    IN SubSeq(Cat(1), 1, outlen)
=============================================================================
