---- MODULE AlgXSeq_TTrace_1790993150 ----
EXTENDS Sequences, TLCExt, AlgXSeq, Toolbox, Naturals, TLC

_expression ==
    LET AlgXSeq_TEExpression == INSTANCE AlgXSeq_TEExpression
    IN AlgXSeq_TEExpression!expression
----

_trace ==
    LET AlgXSeq_TETrace == INSTANCE AlgXSeq_TETrace
    IN AlgXSeq_TETrace!trace
----

_inv ==
    ~(
        TLCGet("level") = Len(_TETrace)
        /\
        p0 = (<<28, 21>>)
        /\
        q = (<<28, 21>>)
        /\
        pc = ("step")
        /\
        Z0 = (23)
        /\
        Z1 = (0)
        /\
        X0 = (6)
        /\
        X1 = (22)
        /\
        i = (29)
        /\
        j = (4)
        /\
        branch = ("general")
        /\
        blen = (4)
        /\
        n = (29)
    )
----

_init ==
    /\ branch = _TETrace[1].branch
    /\ p0 = _TETrace[1].p0
    /\ blen = _TETrace[1].blen
    /\ X0 = _TETrace[1].X0
    /\ X1 = _TETrace[1].X1
    /\ i = _TETrace[1].i
    /\ j = _TETrace[1].j
    /\ n = _TETrace[1].n
    /\ q = _TETrace[1].q
    /\ pc = _TETrace[1].pc
    /\ Z0 = _TETrace[1].Z0
    /\ Z1 = _TETrace[1].Z1
----

_next ==
    /\ \E i,j \in DOMAIN _TETrace:
        /\ \/ /\ j = i + 1
              /\ i = TLCGet("level")
        /\ branch  = _TETrace[i].branch
        /\ branch' = _TETrace[j].branch
        /\ p0  = _TETrace[i].p0
        /\ p0' = _TETrace[j].p0
        /\ blen  = _TETrace[i].blen
        /\ blen' = _TETrace[j].blen
        /\ X0  = _TETrace[i].X0
        /\ X0' = _TETrace[j].X0
        /\ X1  = _TETrace[i].X1
        /\ X1' = _TETrace[j].X1
        /\ i  = _TETrace[i].i
        /\ i' = _TETrace[j].i
        /\ j  = _TETrace[i].j
        /\ j' = _TETrace[j].j
        /\ n  = _TETrace[i].n
        /\ n' = _TETrace[j].n
        /\ q  = _TETrace[i].q
        /\ q' = _TETrace[j].q
        /\ pc  = _TETrace[i].pc
        /\ pc' = _TETrace[j].pc
        /\ Z0  = _TETrace[i].Z0
        /\ Z0' = _TETrace[j].Z0
        /\ Z1  = _TETrace[i].Z1
        /\ Z1' = _TETrace[j].Z1

\* Uncomment the ASSUME below to write the states of the error trace
\* to the given file in Json format. Note that you can pass any tuple
\* to `JsonSerialize`. For example, a sub-sequence of _TETrace.
    \* ASSUME
    \*     LET J == INSTANCE Json
    \*         IN J!JsonSerialize("AlgXSeq_TTrace_1790993150.json", _TETrace)

=============================================================================

 Note that you can extract this module `AlgXSeq_TEExpression`
  to a dedicated file to reuse `expression` (the module in the 
  dedicated `AlgXSeq_TEExpression.tla` file takes precedence 
  over the module `AlgXSeq_TEExpression` below).

---- MODULE AlgXSeq_TEExpression ----
EXTENDS Sequences, TLCExt, AlgXSeq, Toolbox, Naturals, TLC

expression == 
    [
        \* To hide variables of the `AlgXSeq` spec from the error trace,
        \* remove the variables below.  The trace will be written in the order
        \* of the fields of this record.
        branch |-> branch
        ,p0 |-> p0
        ,blen |-> blen
        ,X0 |-> X0
        ,X1 |-> X1
        ,i |-> i
        ,j |-> j
        ,n |-> n
        ,q |-> q
        ,pc |-> pc
        ,Z0 |-> Z0
        ,Z1 |-> Z1
        
        \* Put additional constant-, state-, and action-level expressions here:
        \* ,_stateNumber |-> _TEPosition
        \* ,_branchUnchanged |-> branch = branch'
        
        \* Format the `branch` variable as Json value.
        \* ,_branchJson |->
        \*     LET J == INSTANCE Json
        \*     IN J!ToJson(branch)
        
        \* Lastly, you may build expressions over arbitrary sets of states by
        \* leveraging the _TETrace operator.  For example, this is how to
        \* count the number of times a spec variable changed up to the current
        \* state in the trace.
        \* ,_branchModCount |->
        \*     LET F[s \in DOMAIN _TETrace] ==
        \*         IF s = 1 THEN 0
        \*         ELSE IF _TETrace[s].branch # _TETrace[s-1].branch
        \*             THEN 1 + F[s-1] ELSE F[s-1]
        \*     IN F[_TEPosition - 1]
    ]

=============================================================================



Parsing and semantic processing can take forever if the trace below is long.
 In this case, it is advised to uncomment the module below to deserialize the
 trace from a generated binary file.

\*
\*---- MODULE AlgXSeq_TETrace ----
\*EXTENDS IOUtils, AlgXSeq, TLC
\*
\*trace == IODeserialize("AlgXSeq_TTrace_1790993150.bin", TRUE)
\*
\*=============================================================================
\*

---- MODULE AlgXSeq_TETrace ----
EXTENDS AlgXSeq, TLC

trace == 
    <<
    ([p0 |-> <<28, 21>>,q |-> <<28, 21>>,pc |-> "step",Z0 |-> 1,Z1 |-> 1,X0 |-> 28,X1 |-> 2,i |-> 0,j |-> 0,branch |-> "-",blen |-> 5,n |-> 29]),
    ([p0 |-> <<28, 21>>,q |-> <<28, 21>>,pc |-> "step",Z0 |-> 1,Z1 |-> 20,X0 |-> 2,X1 |-> 14,i |-> 1,j |-> 1,branch |-> "general",blen |-> 5,n |-> 29]),
    ([p0 |-> <<28, 21>>,q |-> <<28, 21>>,pc |-> "step",Z0 |-> 20,Z1 |-> 21,X0 |-> 14,X1 |-> 5,i |-> 2,j |-> 2,branch |-> "general",blen |-> 5,n |-> 29]),
    ([p0 |-> <<28, 21>>,q |-> <<28, 21>>,pc |-> "step",Z0 |-> 21,Z1 |-> 10,X0 |-> 5,X1 |-> 17,i |-> 3,j |-> 3,branch |-> "general",blen |-> 5,n |-> 29]),
    ([p0 |-> <<28, 21>>,q |-> <<28, 21>>,pc |-> "step",Z0 |-> 10,Z1 |-> 20,X0 |-> 17,X1 |-> 10,i |-> 4,j |-> 4,branch |-> "general",blen |-> 5,n |-> 29]),
    ([p0 |-> <<28, 21>>,q |-> <<28, 21>>,pc |-> "step",Z0 |-> 20,Z1 |-> 17,X0 |-> 10,X1 |-> 15,i |-> 5,j |-> 5,branch |-> "general",blen |-> 5,n |-> 29]),
    ([p0 |-> <<28, 21>>,q |-> <<28, 21>>,pc |-> "step",Z0 |-> 20,Z1 |-> 17,X0 |-> 10,X1 |-> 15,i |-> 5,j |-> 0,branch |-> "general",blen |-> 5,n |-> 29]),
    ([p0 |-> <<28, 21>>,q |-> <<28, 21>>,pc |-> "step",Z0 |-> 17,Z1 |-> 3,X0 |-> 15,X1 |-> 28,i |-> 6,j |-> 1,branch |-> "general",blen |-> 5,n |-> 29]),
    ([p0 |-> <<28, 21>>,q |-> <<28, 21>>,pc |-> "step",Z0 |-> 3,Z1 |-> 2,X0 |-> 28,X1 |-> 5,i |-> 7,j |-> 2,branch |-> "general",blen |-> 5,n |-> 29]),
    ([p0 |-> <<28, 21>>,q |-> <<28, 21>>,pc |-> "step",Z0 |-> 2,Z1 |-> 9,X0 |-> 5,X1 |-> 5,i |-> 8,j |-> 3,branch |-> "general",blen |-> 5,n |-> 29]),
    ([p0 |-> <<28, 21>>,q |-> <<28, 21>>,pc |-> "step",Z0 |-> 9,Z1 |-> 23,X0 |-> 5,X1 |-> 3,i |-> 9,j |-> 4,branch |-> "general",blen |-> 5,n |-> 29]),
    ([p0 |-> <<28, 21>>,q |-> <<28, 21>>,pc |-> "step",Z0 |-> 23,Z1 |-> 16,X0 |-> 3,X1 |-> 0,i |-> 10,j |-> 5,branch |-> "general",blen |-> 5,n |-> 29]),
    ([p0 |-> <<28, 21>>,q |-> <<28, 21>>,pc |-> "step",Z0 |-> 23,Z1 |-> 16,X0 |-> 3,X1 |-> 0,i |-> 10,j |-> 0,branch |-> "general",blen |-> 5,n |-> 29]),
    ([p0 |-> <<28, 21>>,q |-> <<28, 21>>,pc |-> "step",Z0 |-> 16,Z1 |-> 14,X0 |-> 0,X1 |-> 25,i |-> 11,j |-> 1,branch |-> "general",blen |-> 5,n |-> 29]),
    ([p0 |-> <<28, 21>>,q |-> <<28, 21>>,pc |-> "step",Z0 |-> 14,Z1 |-> 13,X0 |-> 25,X1 |-> 9,i |-> 12,j |-> 2,branch |-> "x(P_i)=0",blen |-> 5,n |-> 29]),
    ([p0 |-> <<28, 21>>,q |-> <<28, 21>>,pc |-> "step",Z0 |-> 13,Z1 |-> 7,X0 |-> 9,X1 |-> 4,i |-> 13,j |-> 3,branch |-> "general",blen |-> 5,n |-> 29]),
    ([p0 |-> <<28, 21>>,q |-> <<28, 21>>,pc |-> "step",Z0 |-> 7,Z1 |-> 16,X0 |-> 4,X1 |-> 5,i |-> 14,j |-> 4,branch |-> "general",blen |-> 5,n |-> 29]),
    ([p0 |-> <<28, 21>>,q |-> <<28, 21>>,pc |-> "step",Z0 |-> 16,Z1 |-> 24,X0 |-> 5,X1 |-> 1,i |-> 15,j |-> 5,branch |-> "general",blen |-> 5,n |-> 29]),
    ([p0 |-> <<28, 21>>,q |-> <<28, 21>>,pc |-> "step",Z0 |-> 16,Z1 |-> 24,X0 |-> 5,X1 |-> 1,i |-> 15,j |-> 0,branch |-> "general",blen |-> 5,n |-> 29]),
    ([p0 |-> <<28, 21>>,q |-> <<28, 21>>,pc |-> "step",Z0 |-> 24,Z1 |-> 22,X0 |-> 1,X1 |-> 2,i |-> 16,j |-> 1,branch |-> "general",blen |-> 5,n |-> 29]),
    ([p0 |-> <<28, 21>>,q |-> <<28, 21>>,pc |-> "step",Z0 |-> 22,Z1 |-> 25,X0 |-> 2,X1 |-> 0,i |-> 17,j |-> 2,branch |-> "general",blen |-> 5,n |-> 29]),
    ([p0 |-> <<28, 21>>,q |-> <<28, 21>>,pc |-> "step",Z0 |-> 25,Z1 |-> 3,X0 |-> 0,X1 |-> 13,i |-> 18,j |-> 3,branch |-> "general",blen |-> 5,n |-> 29]),
    ([p0 |-> <<28, 21>>,q |-> <<28, 21>>,pc |-> "step",Z0 |-> 3,Z1 |-> 24,X0 |-> 13,X1 |-> 23,i |-> 19,j |-> 4,branch |-> "x(P_i)=0",blen |-> 5,n |-> 29]),
    ([p0 |-> <<28, 21>>,q |-> <<28, 21>>,pc |-> "step",Z0 |-> 24,Z1 |-> 7,X0 |-> 23,X1 |-> 3,i |-> 20,j |-> 5,branch |-> "general",blen |-> 5,n |-> 29]),
    ([p0 |-> <<28, 21>>,q |-> <<28, 21>>,pc |-> "step",Z0 |-> 24,Z1 |-> 7,X0 |-> 23,X1 |-> 3,i |-> 20,j |-> 0,branch |-> "general",blen |-> 5,n |-> 29]),
    ([p0 |-> <<28, 21>>,q |-> <<28, 21>>,pc |-> "step",Z0 |-> 7,Z1 |-> 9,X0 |-> 3,X1 |-> 26,i |-> 21,j |-> 1,branch |-> "general",blen |-> 5,n |-> 29]),
    ([p0 |-> <<28, 21>>,q |-> <<28, 21>>,pc |-> "step",Z0 |-> 9,Z1 |-> 21,X0 |-> 26,X1 |-> 10,i |-> 22,j |-> 2,branch |-> "general",blen |-> 5,n |-> 29]),
    ([p0 |-> <<28, 21>>,q |-> <<28, 21>>,pc |-> "step",Z0 |-> 21,Z1 |-> 17,X0 |-> 10,X1 |-> 23,i |-> 23,j |-> 3,branch |-> "general",blen |-> 5,n |-> 29]),
    ([p0 |-> <<28, 21>>,q |-> <<28, 21>>,pc |-> "step",Z0 |-> 17,Z1 |-> 21,X0 |-> 23,X1 |-> 27,i |-> 24,j |-> 4,branch |-> "general",blen |-> 5,n |-> 29]),
    ([p0 |-> <<28, 21>>,q |-> <<28, 21>>,pc |-> "step",Z0 |-> 21,Z1 |-> 9,X0 |-> 27,X1 |-> 27,i |-> 25,j |-> 5,branch |-> "general",blen |-> 5,n |-> 29]),
    ([p0 |-> <<28, 21>>,q |-> <<28, 21>>,pc |-> "step",Z0 |-> 21,Z1 |-> 9,X0 |-> 27,X1 |-> 27,i |-> 25,j |-> 0,branch |-> "general",blen |-> 4,n |-> 29]),
    ([p0 |-> <<28, 21>>,q |-> <<28, 21>>,pc |-> "step",Z0 |-> 9,Z1 |-> 18,X0 |-> 27,X1 |-> 1,i |-> 26,j |-> 1,branch |-> "general",blen |-> 4,n |-> 29]),
    ([p0 |-> <<28, 21>>,q |-> <<28, 21>>,pc |-> "step",Z0 |-> 18,Z1 |-> 3,X0 |-> 1,X1 |-> 6,i |-> 27,j |-> 2,branch |-> "general",blen |-> 4,n |-> 29]),
    ([p0 |-> <<28, 21>>,q |-> <<28, 21>>,pc |-> "step",Z0 |-> 3,Z1 |-> 23,X0 |-> 6,X1 |-> 6,i |-> 28,j |-> 3,branch |-> "general",blen |-> 4,n |-> 29]),
    ([p0 |-> <<28, 21>>,q |-> <<28, 21>>,pc |-> "step",Z0 |-> 23,Z1 |-> 0,X0 |-> 6,X1 |-> 22,i |-> 29,j |-> 4,branch |-> "general",blen |-> 4,n |-> 29])
    >>
----


=============================================================================

---- CONFIG AlgXSeq_TTrace_1790993150 ----
CONSTANTS
    NMax = 34
    Cap = 5
    ArrLen = 5
    SkipX0Case = FALSE
    X0CaseFirst = FALSE

INVARIANT
    _inv

CHECK_DEADLOCK
    \* CHECK_DEADLOCK off because of PROPERTY or INVARIANT above.
    FALSE

INIT
    _init

NEXT
    _next

CONSTANT
    _TETrace <- _trace

ALIAS
    _expression
=============================================================================
\* Generated on Sat Oct 03 02:06:02 UTC 2026