------------------------------- MODULE Keccak -------------------------------
(***************************************************************************)
(* FIPS 202: Keccak-f[1600], the sponge, SHA3-224/256/384/512 and          *)
(* SHAKE128/256.  A state is 25 lanes (BigNat < 2^64), lane (x,y) at index *)
(* 5y + x + 1.  Round constants and rotation offsets are computed from     *)
(* their FIPS 202 definitions.                                             *)
(***************************************************************************)
EXTENDS BigNat, Naturals, Sequences

Lane(A, x, y) == A[5 * (y % 5) + (x % 5) + 1]

\* rho offsets: (x,y) walks (1,0) -> (y, 2x+3y); offset (t+1)(t+2)/2 mod 64
RECURSIVE RhoWalk(_, _, _, _)
RhoWalk(off, x, y, t) ==
    IF t = 24 THEN off
    ELSE RhoWalk([off EXCEPT ![5 * y + x + 1] = (((t + 1) * (t + 2)) \div 2) % 64],
                 y, (2 * x + 3 * y) % 5, t + 1)
RhoOff == RhoWalk([i \in 1..25 |-> 0], 1, 0, 0)

\* rc(t): LFSR x^8 + x^6 + x^5 + x^4 + 1; R is the 8-bit register as an integer
RECURSIVE LfsrStep(_, _)
LfsrStep(R, n) ==   \* n steps from state R (bit 0 = R[0])
    IF n = 0 THEN R
    ELSE LET R9 == R * 2                       \* R = 0 || R
             b8 == (R9 \div 256) % 2
             X(v, bit) == IF b8 = 1 THEN (IF (v \div bit) % 2 = 1 THEN v - bit ELSE v + bit) ELSE v
             r0 == X(R9, 1)
             r4 == X(r0, 16)
             r5 == X(r4, 32)
             r6 == X(r5, 64)
         IN LfsrStep(r6 % 256, n - 1)
rc(t) == IF t % 255 = 0 THEN 1 ELSE LfsrStep(1, t % 255) % 2
RCof(ir) == LET bits == [j \in 0..6 |-> rc(j + 7 * ir)]
                sh == <<0, 1, 3, 7, 15, 31, 63>>
                RECURSIVE Acc(_, _)
                Acc(j, a) == IF j > 6 THEN a
                             ELSE Acc(j + 1, IF bits[j] = 1 THEN BitXor(a, Pow2(sh[j + 1])) ELSE a)
            IN Acc(0, <<>>)
RC == [ir \in 0..23 |-> RCof(ir)]

Theta(A) ==
    LET C == Tup([x \in 1..5 |-> LET xx == x - 1 IN BitXor(BitXor(BitXor(Lane(A, xx, 0), Lane(A, xx, 1)), BitXor(Lane(A, xx, 2), Lane(A, xx, 3))), Lane(A, xx, 4))])
        D == Tup([x \in 1..5 |-> BitXor(C[((x + 3) % 5) + 1], RotL(C[(x % 5) + 1], 1, 64))])
    IN Tup([i \in 1..25 |-> BitXor(A[i], D[((i - 1) % 5) + 1])])
RhoPi(A) ==   \* B[y, 2x+3y] = rot(A[x,y], r[x,y])
    LET src(i) == LET X == (i - 1) % 5
                      Y == (i - 1) \div 5
                      \* (X,Y) = (y, 2x+3y)  =>  y = X, x = (X + 3Y) mod 5
                      x == (X + 3 * Y) % 5
                      y == X
                  IN 5 * y + x + 1
    IN Tup([i \in 1..25 |-> RotL(A[src(i)], RhoOff[src(i)], 64)])
Chi(B) == Tup([i \in 1..25 |->
             LET x == (i - 1) % 5
                 y == (i - 1) \div 5
             IN BitXor(B[i], BitAnd(NotW(Lane(B, x + 1, y), 64), Lane(B, x + 2, y)))])
Iota(A, ir) == [A EXCEPT ![1] = BitXor(A[1], RC[ir])]
Round(A, ir) == Iota(Chi(RhoPi(Theta(A))), ir)
RECURSIVE Perm(_, _)
Perm(A, ir) == IF ir = 24 THEN A ELSE Perm(Round(A, ir), ir + 1)
KeccakF(A) == Perm(A, 0)

ZeroState == Tup([i \in 1..25 |-> <<>>])

\* XOR a rate-sized block (bytes) into the state, lanes little-endian
XorBlock(A, block, rate) ==
    Tup([i \in 1..25 |-> IF 8 * i <= rate
                         THEN BitXor(A[i], FromBytesLE(SubSeq(block, 8 * (i - 1) + 1, 8 * i)))
                         ELSE A[i]])
\* pad10*1 with the domain-separation suffix bits folded into the first pad byte
PadMsg(msg, rate, dsbyte) ==
    LET z == rate - (Len(msg) % rate)       \* 1..rate pad bytes
    IN IF z = 1 THEN msg \o <<dsbyte + 128>>
       ELSE msg \o <<dsbyte>> \o [i \in 1..(z - 2) |-> 0] \o <<128>>
RECURSIVE AbsorbAll(_, _, _, _)
AbsorbAll(A, padded, i, rate) ==
    IF i > Len(padded) THEN A
    ELSE AbsorbAll(KeccakF(XorBlock(A, SubSeq(padded, i, i + rate - 1), rate)), padded, i + rate, rate)
StateBytes(A, rate) ==
    LET RECURSIVE Cat(_)
        Cat(i) == IF 8 * i > rate THEN <<>> ELSE ToBytesLE(A[i], 8) \o Cat(i + 1)
    IN Cat(1)
RECURSIVE Squeeze(_, _, _)
Squeeze(A, n, rate) ==
    IF n <= rate THEN SubSeq(StateBytes(A, rate), 1, n)
    ELSE StateBytes(A, rate) \o Squeeze(KeccakF(A), n - rate, rate)
Sponge(msg, rate, dsbyte, outlen) ==
    Squeeze(AbsorbAll(ZeroState, PadMsg(msg, rate, dsbyte), 1, rate), outlen, rate)

SHA3_224(m) == Sponge(m, 144, 6, 28)
SHA3_256(m) == Sponge(m, 136, 6, 32)
SHA3_384(m) == Sponge(m, 104, 6, 48)
SHA3_512(m) == Sponge(m, 72, 6, 64)
\* first n bytes of the SHAKE output stream
SHAKE128(m, n) == Sponge(m, 168, 31, n)
SHAKE256(m, n) == Sponge(m, 136, 31, n)
=============================================================================
