------------------------------- MODULE Keccak -------------------------------
(***************************************************************************)
(* FIPS 202: Keccak-f[1600], the sponge, SHA3-224/256/384/512 and          *)
(* SHAKE128/256.  A state is 25 lanes (BigNat < 2^64), lane (x,y) at index *)
(* 5y + x + 1.  Round constants and rotation offsets are computed from     *)
(* their FIPS 202 definitions.                                             *)
(***************************************************************************)
EXTENDS BigNat, Naturals, Sequences

Lane(A, x, y) == A[5 * (y % 5) + (x % 5) + 1]

\* rho offsets: (x,y) walks (1,0) -> (y, 2x+3y); offset (t+1)(t+2)/2 mod 64
RECURSIVE RhoWalk(_, _, _, _)
RhoWalk(off, x, y, t) ==
    IF t = 24 THEN off
    ELSE RhoWalk([off EXCEPT ![5 * y + x + 1] = (((t + 1) * (t + 2)) \div 2) % 64],
                 y, (2 * x + 3 * y) % 5, t + 1)
RhoOff == RhoWalk([i \in 1..25 |-> 0], 1, 0, 0)

\* rc(t): LFSR x^8 + x^6 + x^5 + x^4 + 1; R is the 8-bit register as an integer
RECURSIVE LfsrStep(_, _)
LfsrStep(R, n) ==   \* n steps from state R (bit 0 = R[0])
    IF n = 0 THEN R
    ELSE LET R9 == R * 2                       \* R = 0 || R
             b8 == (R9 \div 256) % 2
             X(v, bit) == IF b8 = 1 THEN (IF (v \div bit) % 2 = 1 THEN v - bit ELSE v + bit) ELSE v
             r0 == X(R9, 1)
             r4 == X(r0, 16)
             r5 == X(r4, 32)
             r6 == X(r5, 64)
         IN LfsrStep(r6 % 256, n - 1)
rc(t) == IF t % 255 = 0 THEN 1 ELSE LfsrStep(1, t % 255) % 2
RCof(ir) == LET bits == [j \in 0..6 |-> rc(j + 7 * ir)]
                sh == <<0, 1, 3, 7, 15, 31, 63>>
                RECURSIVE Acc(_, _)
                Acc(j, a) == IF j > 6 THEN a
                             ELSE Acc(j + 1, IF bits[j] = 1 THEN BitXor(a, Pow2(sh[j + 1])) ELSE a)
            IN Acc(0, <<>>)
RC == [ir \in 0..23 |-> RCof(ir)]

\* The step mappings, written lane-vector-wise: Sel(A, idx) is the state whose
\* lane i is A[idx[i]]; XorV / AndV / NotV / RotLV act on all lanes at once.
Sel(A, idx) == Tup([i \in 1..Len(idx) |-> A[idx[i]]])
Idx(f(_, _)) == Tup([i \in 1..25 |-> f((i - 1) % 5, (i - 1) \div 5)])      \* index vector from (x, y)
At(x, y) == 5 * (y % 5) + (x % 5) + 1
\* theta: C[x] = A[x,0] ^ .. ^ A[x,4];  D[x] = C[x-1] ^ rot(C[x+1], 1);  A[x,y] ^= D[x]
ThetaD(x, y) == x + 1
ThetaIdx == Idx(ThetaD)
ColIdx(k) == Tup([x \in 1..5 |-> At(x - 1, k)])
Col0 == ColIdx(0)
Col1 == ColIdx(1)
Col2 == ColIdx(2)
Col3 == ColIdx(3)
Col4 == ColIdx(4)
Ones5 == <<1, 1, 1, 1, 1>>
Theta(A) ==
    LET C == XorV(XorV(XorV(Sel(A, ColIdx(0)), Sel(A, ColIdx(1))), XorV(Sel(A, ColIdx(2)), Sel(A, ColIdx(3)))),
                  Sel(A, ColIdx(4)))
        D == XorV(Sel(C, <<5, 1, 2, 3, 4>>), RotLV(Sel(C, <<2, 3, 4, 5, 1>>), Ones5, 64))
    IN XorV(A, Sel(D, ThetaIdx))
\* rho and pi: B[y, 2x+3y] = rot(A[x,y], r[x,y]); as a gather: B[X,Y] = rot(A[x,y]) with x = X+3Y, y = X
PiSrc(X, Y) == At(X + 3 * Y, X)
PiIdx == Idx(PiSrc)
RhoPi(A) == Sel(RotLV(A, RhoOff, 64), PiIdx)
\* chi: A[x,y] = B[x,y] ^ (~B[x+1,y] & B[x+2,y])
Chi1(x, y) == At(x + 1, y)
Chi2(x, y) == At(x + 2, y)
Chi1Idx == Idx(Chi1)
Chi2Idx == Idx(Chi2)
Chi(B) == XorV(B, AndV(NotV(Sel(B, Chi1Idx), 64), Sel(B, Chi2Idx)))
Iota(A, ir) == [A EXCEPT ![1] = BitXor(A[1], RC[ir])]
Round(A, ir) == Iota(Chi(RhoPi(Theta(A))), ir)
RECURSIVE Perm(_, _)
Perm(A, ir) == IF ir = 24 THEN A ELSE Perm(Round(A, ir), ir + 1)
KeccakF(A) == Perm(A, 0)

ZeroState == Tup([i \in 1..25 |-> <<>>])

\* XOR a rate-sized block (bytes) into the state, lanes little-endian
XorBlock(A, block, rate) ==
    Tup([i \in 1..25 |-> IF 8 * i <= rate
                         THEN BitXor(A[i], FromBytesLE(SubSeq(block, 8 * (i - 1) + 1, 8 * i)))
                         ELSE A[i]])
\* pad10*1 with the domain-separation suffix bits folded into the first pad byte
PadMsg(msg, rate, dsbyte) ==
    LET z == rate - (Len(msg) % rate)       \* 1..rate pad bytes
    IN IF z = 1 THEN msg \o <<dsbyte + 128>>
       ELSE msg \o <<dsbyte>> \o [i \in 1..(z - 2) |-> 0] \o <<128>>
RECURSIVE AbsorbAll(_, _, _, _)
AbsorbAll(A, padded, i, rate) ==
    IF i > Len(padded) THEN A
    ELSE AbsorbAll(KeccakF(XorBlock(A, SubSeq(padded, i, i + rate - 1), rate)), padded, i + rate, rate)
StateBytes(A, rate) ==
    LET RECURSIVE Cat(_)
        Cat(i) == IF 8 * i > rate THEN <<>> ELSE ToBytesLE(A[i], 8) \o Cat(i + 1)
    IN Cat(1)
RECURSIVE Squeeze(_, _, _)
Squeeze(A, n, rate) ==
    IF n <= rate THEN SubSeq(StateBytes(A, rate), 1, n)
    ELSE StateBytes(A, rate) \o Squeeze(KeccakF(A), n - rate, rate)
Sponge(msg, rate, dsbyte, outlen) ==
    Squeeze(AbsorbAll(ZeroState, PadMsg(msg, rate, dsbyte), 1, rate), outlen, rate)

SHA3_224(m) == Sponge(m, 144, 6, 28)
SHA3_256(m) == Sponge(m, 136, 6, 32)
SHA3_384(m) == Sponge(m, 104, 6, 48)
SHA3_512(m) == Sponge(m, 72, 6, 64)
\* first n bytes of the SHAKE output stream
SHAKE128(m, n) == Sponge(m, 168, 31, n)
SHAKE256(m, n) == Sponge(m, 136, 31, n)
=============================================================================
