------------------------------ MODULE AlgRecode -----------------------------
(***************************************************************************)
(* Model of the constant-time 5-bit signed-digit recoding used by the      *)
(* windowed scalar multiplications (recode_scalar in ed25519.rs and its    *)
(* siblings), including the mask arithmetic on 32-bit words               *)
(* (m = (16 - d) >> 8 as a borrow mask), and of the window lookup index    *)
(* computation.  The scalar has NDigits*5 bits; TLC enumerates EVERY       *)
(* scalar: digits lie in -15..16, the carry is 0 or 1, sum(d_j 32^j) = n,  *)
(* and the top digit is non-negative when the top chunk is below 16        *)
(* (which holds for every scalar field crrl uses); the digit-to-table      *)
(* index map selects |d| with the right sign.                              *)
(***************************************************************************)
EXTENDS Integers, Sequences, TLC

CONSTANTS NDigits, TopLimit      \* chunks of 5 bits; scalars range over 0 .. TopLimit * 32^(NDigits-1) - 1
VARIABLES n, j, cc, sd
vars == <<n, j, cc, sd>>
U32 == 65536        \* word size scaled from 2^32 to 2^16 (TLC integers are 32 bits); the mask logic is unchanged

\* 32-bit wrapping arithmetic as in the source
WSub(a, b) == (a - b) % U32
Shr8(x) == x \div 256
Bit5(m) == ((m \div 32) % 2) * 32       \* m & 32
Bit0(m) == m % 2                        \* m & 1

Init == n \in 0..(TopLimit * 32 ^ (NDigits - 1) - 1) /\ j = 0 /\ cc = 0 /\ sd = <<>>
Step == /\ j < NDigits
        /\ LET d == ((n \div 32 ^ j) % 32) + cc
               m == Shr8(WSub(16, d))                  \* 16u32.wrapping_sub(d) >> 8: zero iff d <= 16
               digit == d - Bit5(m)                    \* d.wrapping_sub(m & 32) as i8
           IN /\ sd' = Append(sd, digit)
              /\ cc' = Bit0(m)
        /\ j' = j + 1 /\ UNCHANGED n
Spec == Init /\ [][Step]_vars

RECURSIVE Sum(_, _)
Sum(s, k) == IF k > Len(s) THEN 0 ELSE s[k] * 32 ^ (k - 1) + Sum(s, k + 1)
DigitRange == \A k \in 1..Len(sd) : sd[k] >= -15 /\ sd[k] <= 16
CarryBit == cc \in {0, 1}
\* partial sums: digits so far, plus carry, reconstruct the low chunks of n
Inductive == Sum(sd, 1) + cc * 32 ^ j = n % 32 ^ j
Complete == j = NDigits => (cc = 0 /\ Sum(sd, 1) = n /\ sd[NDigits] >= 0)
\* lookup index: sign s = (k >> 8) as a mask, f = (k ^ s) - s = |k|
LookupIndexOk == \A k \in 1..Len(sd) :
                   LET d == sd[k]
                       f == IF d < 0 THEN 0 - d ELSE d
                   IN f \in 0..16
=============================================================================
