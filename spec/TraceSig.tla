------------------------------ MODULE TraceSig ------------------------------
(***************************************************************************)
(* Trace specification for the self-contained signature / key-exchange     *)
(* calls (C07, C08, C14): every event carries all inputs and the observed  *)
(* result; TLC recomputes the result from EdDSA / ECDSA / XDH.             *)
(***************************************************************************)
EXTENDS TLC, Json, IOUtils, Integers, Sequences
ED == INSTANCE EdDSA
EC == INSTANCE ECDSA
JQ == INSTANCE JqSchnorr

Rec == ndJsonDeserialize(IOEnv.TRACE)
N == Len(Rec)
VARIABLES l
vars == <<l>>
e == Rec[l]
Has(f) == f \in DOMAIN e
Is(op) == l <= N /\ e.op = op
Chk(ok) == IF ok THEN TRUE ELSE PrintT(<<"MISMATCH", l, e.op>>)
Step(ok) == Chk(ok) /\ l' = l + 1

Init == l = 1
DoInit == Is("init") /\ Step(TRUE)

(* ---- C14 ---- *)
DoX25519 == Is("x25519") /\ Step(Has("out") /\ e.out = ED!X25519(e.k, e.u))
DoX25519Base == Is("x25519_base") /\ Step(Has("out") /\ e.out = ED!X25519(e.k, ED!U9))
DoX448 == Is("x448") /\ Step(Has("out") /\ e.out = ED!X448(e.k, e.u))
DoX448Base == Is("x448_base") /\ Step(Has("out") /\ e.out = ED!X448(e.k, ED!U5))

(* ---- C07 ---- *)
C448 == e.c = "ed448"
DoEdKeygen == Is("ed_keygen") /\ Step(Has("pk") /\ e.pk = ED!PublicKey(C448, e.seed))
DoEdSign == Is("ed_sign") /\ Step(Has("sig") /\ e.sig = ED!Sign(C448, e.mode, e.seed, e.ctx, e.msg))
DoEdVerify ==
    /\ Is("ed_verify")
    /\ LET pkok == ED!EDec(C448, e.pk)[1]
       IN Step(/\ Has("pkok") /\ e.pkok = pkok
               /\ (pkok => Has("res") /\ e.res = ED!Verify(C448, e.mode, e.pk, e.sig, e.ctx, e.msg)))

(* ---- C08 ---- *)
Curve == IF e.c = "p256" THEN EC!P256 ELSE EC!Secp256k1
DoEcKeygen ==
    /\ Is("ecdsa_keygen")
    /\ LET ok == EC!SkOk(Curve, e.sk)
       IN Step(Has("skok") /\ e.skok = ok /\ (ok => Has("pk") /\ e.pk = EC!PubOf(Curve, e.sk)))
DoEcSign == Is("ecdsa_sign")
            /\ Step(Has("sig") /\ e.sig = EC!Sign(Curve, e.c = "secp256k1", e.sk, e.hv, e.extra))
DoEcVerify ==
    /\ Is("ecdsa_verify")
    /\ LET d == EC!Sec1Decode(Curve, e.pk)
           pkok == d[1] /\ ~EC!IsInf(d[2])
       IN Step(/\ Has("pkok") /\ e.pkok = pkok
               /\ (pkok => Has("res") /\ e.res = EC!Verify(Curve, e.pk, e.sig, e.hv)))

(* ---- C09 ---- *)
DoJqKeygen == Is("jq_keygen")
              /\ LET ok == JQ!JSkOk(e.c, e.sk)
                 IN Step(Has("skok") /\ e.skok = ok /\ (ok => Has("pk") /\ e.pk = JQ!JPub(e.c, e.sk)))
DoJqSign == Is("jq_sign") /\ Step(Has("sig") /\ e.sig = JQ!JSign(e.c, e.sk, e.seed, e.hn, e.data))
\* randomized signatures are only required to verify
DoJqSignRand == Is("jq_sign_rand")
                /\ Step(Has("sig") /\ JQ!JVerify(e.c, JQ!JPub(e.c, e.sk), e.sig, e.hn, e.data))
DoJqVerify ==
    /\ Is("jq_verify")
    /\ LET pkok == Len(e.pk) = 32 /\ JQ!JPkOk(e.c, e.pk)
       IN Step(/\ Has("pkok") /\ e.pkok = pkok
               /\ (pkok => Has("res") /\ e.res = JQ!JVerify(e.c, e.pk, e.sig, e.hn, e.data)))
\* ECDH: status, and on success the documented key
DoJqEcdh ==
    /\ Is("jq_ecdh")
    /\ LET ok == JQ!JEcdhOk(e.c, e.peer)
       IN Step(/\ Has("st") /\ e.st = (IF ok THEN "ones" ELSE "zero")
               /\ (ok => e.key = JQ!JEcdhKey(e.c, e.sk, e.peer))
               /\ (~ok => e.key \notin JQ!JEcdhGuesses(e.c, e.sk, e.peer)))
\* on failure the key must depend on the local secret: two different secrets, same bad peer
DoJqEcdhFail == Is("jq_ecdh_fail2")
                /\ Step(~JQ!JEcdhOk(e.c, e.peer) /\ e.sk1 # e.sk2 /\ e.st1 = "zero" /\ e.st2 = "zero" /\ e.key1 # e.key2)

Next == \/ DoJqKeygen \/ DoJqSign \/ DoJqSignRand \/ DoJqVerify \/ DoJqEcdh \/ DoJqEcdhFail
        \/ DoInit \/ DoX25519 \/ DoX25519Base \/ DoX448 \/ DoX448Base
        \/ DoEdKeygen \/ DoEdSign \/ DoEdVerify
        \/ DoEcKeygen \/ DoEcSign \/ DoEcVerify
Spec == Init /\ [][Next]_vars
Consumed == TLCGet("stats").diameter - 1
TraceDone == PrintT(<<"TRACE_CONSUMED", Consumed, N>>) /\ Consumed = N
=============================================================================
