------------------------------ MODULE TraceSig ------------------------------
(***************************************************************************)
(* Trace specification for the self-contained signature / key-exchange     *)
(* calls (C07, C08, C14): every event carries all inputs and the observed  *)
(* result; TLC recomputes the result from EdDSA / ECDSA / XDH.             *)
(***************************************************************************)
EXTENDS TLC, Json, IOUtils, Integers, Sequences
ED == INSTANCE EdDSA
EC == INSTANCE ECDSA

Rec == ndJsonDeserialize(IOEnv.TRACE)
N == Len(Rec)
VARIABLES l
vars == <<l>>
e == Rec[l]
Has(f) == f \in DOMAIN e
Is(op) == l <= N /\ e.op = op
Chk(ok) == IF ok THEN TRUE ELSE PrintT(<<"MISMATCH", l, e.op>>)
Step(ok) == Chk(ok) /\ l' = l + 1

Init == l = 1
DoInit == Is("init") /\ Step(TRUE)

(* ---- C14 ---- *)
DoX25519 == Is("x25519") /\ Step(Has("out") /\ e.out = ED!X25519(e.k, e.u))
DoX25519Base == Is("x25519_base") /\ Step(Has("out") /\ e.out = ED!X25519(e.k, ED!U9))
DoX448 == Is("x448") /\ Step(Has("out") /\ e.out = ED!X448(e.k, e.u))
DoX448Base == Is("x448_base") /\ Step(Has("out") /\ e.out = ED!X448(e.k, ED!U5))

(* ---- C07 ---- *)
C448 == e.c = "ed448"
DoEdKeygen == Is("ed_keygen") /\ Step(Has("pk") /\ e.pk = ED!PublicKey(C448, e.seed))
DoEdSign == Is("ed_sign") /\ Step(Has("sig") /\ e.sig = ED!Sign(C448, e.mode, e.seed, e.ctx, e.msg))
DoEdVerify ==
    /\ Is("ed_verify")
    /\ LET pkok == ED!EDec(C448, e.pk)[1]
       IN Step(/\ Has("pkok") /\ e.pkok = pkok
               /\ (pkok => Has("res") /\ e.res = ED!Verify(C448, e.mode, e.pk, e.sig, e.ctx, e.msg)))

(* ---- C08 ---- *)
Curve == IF e.c = "p256" THEN EC!P256 ELSE EC!Secp256k1
DoEcKeygen ==
    /\ Is("ecdsa_keygen")
    /\ LET ok == EC!SkOk(Curve, e.sk)
       IN Step(Has("skok") /\ e.skok = ok /\ (ok => Has("pk") /\ e.pk = EC!PubOf(Curve, e.sk)))
DoEcSign == Is("ecdsa_sign")
            /\ Step(Has("sig") /\ e.sig = EC!Sign(Curve, e.c = "secp256k1", e.sk, e.hv, e.extra))
DoEcVerify ==
    /\ Is("ecdsa_verify")
    /\ LET d == EC!Sec1Decode(Curve, e.pk)
           pkok == d[1] /\ ~EC!IsInf(d[2])
       IN Step(/\ Has("pkok") /\ e.pkok = pkok
               /\ (pkok => Has("res") /\ e.res = EC!Verify(Curve, e.pk, e.sig, e.hv)))

Next == \/ DoInit \/ DoX25519 \/ DoX25519Base \/ DoX448 \/ DoX448Base
        \/ DoEdKeygen \/ DoEdSign \/ DoEdVerify
        \/ DoEcKeygen \/ DoEcSign \/ DoEcVerify
Spec == Init /\ [][Next]_vars
Consumed == TLCGet("stats").diameter - 1
TraceDone == PrintT(<<"TRACE_CONSUMED", Consumed, N>>) /\ Consumed = N
=============================================================================
