------------------------------- MODULE Groups -------------------------------
(***************************************************************************)
(* The group types of crrl as (curve, codec, equality) bundles, dispatched *)
(* on the group name used in traces.                                       *)
(***************************************************************************)
EXTENDS Quotients, Gls254

GroupNames == {"ed25519", "ed448", "p256", "secp256k1", "ristretto255", "decaf448", "jq255e", "jq255s", "gls254"}
CurveOf(g) == CASE g \in {"ed25519", "ristretto255"} -> Ed25519
                [] g \in {"ed448", "decaf448"} -> Ed448
                [] g = "p256" -> P256 [] g = "secp256k1" -> Secp256k1
                [] g = "jq255e" -> Jq255e [] g = "jq255s" -> Jq255s
\* order of the scalar field attached to the group type
ScalarOrder(g) == IF g = "gls254" THEN RGLS254 ELSE CurveOf(g).n
\* the encoding `encode` (or encode_uncompressed) must return
GEncode(g, P) == CASE g = "ed25519" -> EdEncode(Ed25519, 32, P)
                   [] g = "ed448" -> EdEncode(Ed448, 57, P)
                   [] g \in {"p256", "secp256k1"} -> Sec1EncodeU(CurveOf(g), P)
                   [] g = "ristretto255" -> RistEncode(P)
                   [] g = "decaf448" -> DecafEncode(P)
                   [] g \in {"jq255e", "jq255s"} -> JqEncode(CurveOf(g), P)
                   [] g = "gls254" -> GlsEncode(P)
GEncodeC(g, P) == Sec1EncodeC(CurveOf(g), P)
GDecode(g, b) == CASE g = "ed25519" -> EdDecode(Ed25519, 32, b)
                   [] g = "ed448" -> EdDecode(Ed448, 57, b)
                   [] g \in {"p256", "secp256k1"} -> Sec1Decode(CurveOf(g), b)
                   [] g = "ristretto255" -> RistDecode(b)
                   [] g = "decaf448" -> DecafDecode(b)
                   [] g \in {"jq255e", "jq255s"} -> JqDecode(CurveOf(g), b)
                   [] g = "gls254" -> GlsDecode(b)
\* equality of group elements (identity of points on the plain curves)
\* and of cosets in the quotient groups
GEq(g, P, Q) ==
    CASE g = "ristretto255" -> PXDbl(Ed25519, PSub(Ed25519, P, Q), 2) = TedNeutral
      [] g = "decaf448" -> PDbl(Ed448, PSub(Ed448, P, Q)) = TedNeutral
      [] g \in {"jq255e", "jq255s"} -> PSub(CurveOf(g), P, Q) \in {Inf, JqN}
      [] OTHER -> P = Q
GNeutral(g) == IF g = "gls254" THEN GlsNeutral ELSE Neutral(CurveOf(g))
GAdd(g, P, Q) == IF g = "gls254" THEN GlsAdd(P, Q) ELSE PAdd(CurveOf(g), P, Q)
GNeg(g, P) == IF g = "gls254" THEN GlsNeg(P) ELSE PNeg(CurveOf(g), P)
GMul(g, k, P) == IF g = "gls254" THEN GlsMul(k, P) ELSE SMul(CurveOf(g), k, P)
GBase(g) == CASE g = "decaf448" -> DecafBase [] g = "gls254" -> GlsBase [] OTHER -> CurveOf(g).G
\* byte-string-to-group maps
GMap(g, b) == CASE g = "ristretto255" -> RistOneWayMap(b) [] g = "decaf448" -> DecafOneWayMap(b)
=============================================================================
