------------------------------- MODULE BigNat -------------------------------
(***************************************************************************)
(* Arbitrary-precision naturals for TLC, whose own integers are 32 bits.   *)
(*                                                                         *)
(* A natural number is a sequence of bytes (0..255), little-endian, with   *)
(* no trailing zero byte; zero is <<>>.  This is also crrl's wire format   *)
(* for field elements and scalars, so encodings need no conversion.        *)
(*                                                                         *)
(* Every operator Xxx below is defined as XxxPure, a plain TLA+            *)
(* definition.  For speed TLC is normally run with the Java module         *)
(* overrides of overrides/CrrlOverrides.java, which replace Xxx (never     *)
(* XxxPure); spec/selftest/SelfTest.tla makes TLC compare the two.         *)
(***************************************************************************)
EXTENDS Naturals, Sequences

IsByteSeq(s) == /\ DOMAIN s = 1..Len(s)
                /\ \A i \in 1..Len(s) : s[i] \in 0..255

ByteAt(s, i) == IF i >= 1 /\ i <= Len(s) THEN s[i] ELSE 0

RECURSIVE NormPure(_)
NormPure(s) == IF Len(s) = 0 THEN <<>>
               ELSE IF s[Len(s)] = 0 THEN NormPure(SubSeq(s, 1, Len(s) - 1))
               ELSE SubSeq(s, 1, Len(s))
Norm(s) == NormPure(s)

Zero == <<>>
One  == <<1>>

RECURSIVE FromIntPure(_)
FromIntPure(n) == IF n = 0 THEN <<>> ELSE <<n % 256>> \o FromIntPure(n \div 256)
FromInt(n) == FromIntPure(n)

RECURSIVE ToIntRec(_, _)
ToIntRec(s, i) == IF i > Len(s) THEN 0 ELSE s[i] + 256 * ToIntRec(s, i + 1)
ToIntPure(a) == ToIntRec(NormPure(a), 1)
ToInt(a) == ToIntPure(a)

(* ------------------------------ comparison ------------------------------ *)

RECURSIVE LtRec(_, _, _)
LtRec(a, b, i) == IF i = 0 THEN FALSE
                  ELSE IF a[i] # b[i] THEN a[i] < b[i]
                  ELSE LtRec(a, b, i - 1)
LtPure(a, b) == LET x == NormPure(a)
                    y == NormPure(b)
                IN IF Len(x) # Len(y) THEN Len(x) < Len(y) ELSE LtRec(x, y, Len(x))
Lt(a, b) == LtPure(a, b)
Le(a, b) == ~Lt(b, a)
Eq(a, b) == Norm(a) = Norm(b)
IsZero(a) == Norm(a) = <<>>

(* --------------------------- addition, subtraction ---------------------- *)

RECURSIVE AddRec(_, _, _, _)
AddRec(a, b, i, c) ==
    IF i > Len(a) /\ i > Len(b) THEN (IF c = 0 THEN <<>> ELSE <<c>>)
    ELSE LET t == ByteAt(a, i) + ByteAt(b, i) + c
         IN <<t % 256>> \o AddRec(a, b, i + 1, t \div 256)
AddPure(a, b) == NormPure(AddRec(a, b, 1, 0))
Add(a, b) == AddPure(a, b)

RECURSIVE SubRec(_, _, _, _)
SubRec(a, b, i, c) ==      \* requires a >= b; c is the borrow
    IF i > Len(a) THEN <<>>
    ELSE LET t == 256 + ByteAt(a, i) - ByteAt(b, i) - c
         IN <<t % 256>> \o SubRec(a, b, i + 1, 1 - (t \div 256))
\* truncated subtraction: max(a - b, 0)
SubPure(a, b) == IF LtPure(a, b) THEN <<>> ELSE NormPure(SubRec(a, b, 1, 0))
Sub(a, b) == SubPure(a, b)

(* ------------------------------ multiplication -------------------------- *)

RECURSIVE MulByteRec(_, _, _, _)
MulByteRec(a, d, i, c) ==
    IF i > Len(a) THEN FromIntPure(c)
    ELSE LET t == a[i] * d + c
         IN <<t % 256>> \o MulByteRec(a, d, i + 1, t \div 256)
RECURSIVE MulRec(_, _, _)
MulRec(a, b, j) ==      \* sum over j' >= j of a * b[j'] * 256^(j'-j)
    IF j > Len(b) THEN <<>>
    ELSE AddPure(MulByteRec(a, b[j], 1, 0), <<0>> \o MulRec(a, b, j + 1))
MulPure(a, b) == NormPure(MulRec(NormPure(a), NormPure(b), 1))
Mul(a, b) == MulPure(a, b)

(* -------------------------------- bits ---------------------------------- *)

Pow2Small(k) == CASE k = 0 -> 1 [] k = 1 -> 2 [] k = 2 -> 4 [] k = 3 -> 8
                  [] k = 4 -> 16 [] k = 5 -> 32 [] k = 6 -> 64 [] k = 7 -> 128
                  [] k = 8 -> 256
Pow2(k) == [i \in 1..(k \div 8) |-> 0] \o <<Pow2Small(k % 8)>>

BitLenByte(x) == IF x >= 128 THEN 8 ELSE IF x >= 64 THEN 7 ELSE IF x >= 32 THEN 6
                 ELSE IF x >= 16 THEN 5 ELSE IF x >= 8 THEN 4 ELSE IF x >= 4 THEN 3
                 ELSE IF x >= 2 THEN 2 ELSE IF x >= 1 THEN 1 ELSE 0
BitLenPure(a) == LET x == NormPure(a)
                 IN IF Len(x) = 0 THEN 0 ELSE 8 * (Len(x) - 1) + BitLenByte(x[Len(x)])
BitLen(a) == BitLenPure(a)

BitPure(a, i) == (ByteAt(a, (i \div 8) + 1) \div Pow2Small(i % 8)) % 2
Bit(a, i) == BitPure(a, i)

(* --------------------------- division, remainder ------------------------ *)

\* long division, one bit per step, from the top bit down; returns <<q, r>>
RECURSIVE DivModRec(_, _, _, _, _)
DivModRec(a, b, i, q, r) ==
    IF i < 0 THEN <<q, r>>
    ELSE LET r2 == AddPure(AddPure(r, r), FromIntPure(BitPure(a, i)))
             ge == ~LtPure(r2, b)
         IN DivModRec(a, b, i - 1,
                      AddPure(AddPure(q, q), IF ge THEN <<1>> ELSE <<>>),
                      IF ge THEN SubPure(r2, b) ELSE r2)
DivModPure(a, b) == DivModRec(a, b, BitLenPure(a) - 1, <<>>, <<>>)
\* total: x div 0 = 0, x mod 0 = x
DivPure(a, b) == IF NormPure(b) = <<>> THEN <<>> ELSE DivModPure(a, b)[1]
ModPure(a, b) == IF NormPure(b) = <<>> THEN NormPure(a) ELSE DivModPure(a, b)[2]
Div(a, b) == DivPure(a, b)
Mod(a, b) == ModPure(a, b)

ShlPure(a, k) == MulPure(a, Pow2(k))
ShrPure(a, k) == DivPure(a, Pow2(k))
Shl(a, k) == ShlPure(a, k)
Shr(a, k) == ShrPure(a, k)
LowBitsPure(a, w) == ModPure(a, Pow2(w))
LowBits(a, w) == LowBitsPure(a, w)

(* ----------------------------- modular arithmetic ----------------------- *)

ModAddPure(a, b, m) == ModPure(AddPure(a, b), m)
ModSubPure(a, b, m) == ModPure(SubPure(AddPure(ModPure(a, m), m), ModPure(b, m)), m)
ModMulPure(a, b, m) == ModPure(MulPure(a, b), m)
ModAdd(a, b, m) == ModAddPure(a, b, m)
ModSub(a, b, m) == ModSubPure(a, b, m)
ModMul(a, b, m) == ModMulPure(a, b, m)
ModNeg(a, m) == ModSub(Zero, a, m)

RECURSIVE ModPowRec(_, _, _, _, _)
ModPowRec(a, e, m, i, acc) ==     \* left-to-right square and multiply
    IF i < 0 THEN acc
    ELSE LET s == ModMulPure(acc, acc, m)
         IN ModPowRec(a, e, m, i - 1,
                      IF BitPure(e, i) = 1 THEN ModMulPure(s, a, m) ELSE s)
ModPowPure(a, e, m) == ModPowRec(a, e, m, BitLenPure(e) - 1, ModPure(<<1>>, m))
ModPow(a, e, m) == ModPowPure(a, e, m)

\* extended Euclid with the Bezout coefficient of a kept modulo m;
\* result: 1/a mod m if gcd(a, m) = 1, else 0
RECURSIVE ModInvRec(_, _, _, _, _)
ModInvRec(r0, r1, t0, t1, m) ==
    IF NormPure(r1) = <<>> THEN (IF NormPure(r0) = <<1>> THEN t0 ELSE <<>>)
    ELSE LET qr == DivModPure(r0, r1)
         IN ModInvRec(r1, qr[2], t1, ModSubPure(t0, ModMulPure(qr[1], t1, m), m), m)
ModInvPure(a, m) == ModInvRec(NormPure(m), ModPure(a, m), <<>>, ModPure(<<1>>, m), m)
ModInv(a, m) == ModInvPure(a, m)

(* ------------------------------ bitwise logic --------------------------- *)

RECURSIVE XorSmall(_, _, _)
XorSmall(x, y, n) == IF n = 0 THEN 0
                     ELSE ((x + y) % 2) + 2 * XorSmall(x \div 2, y \div 2, n - 1)
RECURSIVE AndSmall(_, _, _)
AndSmall(x, y, n) == IF n = 0 THEN 0
                     ELSE ((x % 2) * (y % 2)) + 2 * AndSmall(x \div 2, y \div 2, n - 1)
MaxLen(a, b) == IF Len(a) > Len(b) THEN Len(a) ELSE Len(b)
BitXorPure(a, b) == NormPure([i \in 1..MaxLen(a, b) |-> XorSmall(ByteAt(a, i), ByteAt(b, i), 8)])
BitAndPure(a, b) == NormPure([i \in 1..MaxLen(a, b) |-> AndSmall(ByteAt(a, i), ByteAt(b, i), 8)])
BitOrPure(a, b) ==
    NormPure([i \in 1..MaxLen(a, b) |->
                ByteAt(a, i) + ByteAt(b, i) - AndSmall(ByteAt(a, i), ByteAt(b, i), 8)])
BitXor(a, b) == BitXorPure(a, b)
BitAnd(a, b) == BitAndPure(a, b)
BitOr(a, b)  == BitOrPure(a, b)

\* rotate right by k inside a w-bit word
RotRPure(a, k, w) == LET x  == LowBitsPure(a, w)
                         kk == k % w
                     IN AddPure(ShrPure(x, kk), LowBitsPure(ShlPure(x, w - kk), w))
RotR(a, k, w) == RotRPure(a, k, w)
RotL(a, k, w) == RotR(a, w - (k % w), w)
\* complement inside a w-bit word
NotW(a, w) == Sub(Sub(Pow2(w), One), LowBits(a, w))
AddW(a, b, w) == LowBits(Add(a, b), w)

(* ---- element-wise word operations on sequences of words (Keccak lanes) ---- *)
XorVPure(a, b) == [i \in 1..Len(a) |-> BitXorPure(a[i], b[i])]
AndVPure(a, b) == [i \in 1..Len(a) |-> BitAndPure(a[i], b[i])]
NotVPure(a, w) == [i \in 1..Len(a) |-> SubPure(SubPure(Pow2(w), <<1>>), LowBitsPure(a[i], w))]
\* rotate word i left by ks[i] inside w bits
RotLVPure(a, ks, w) == [i \in 1..Len(a) |-> RotRPure(a[i], w - (ks[i] % w), w)]
XorV(a, b) == XorVPure(a, b)
AndV(a, b) == AndVPure(a, b)
NotV(a, w) == NotVPure(a, w)
RotLV(a, ks, w) == RotLVPure(a, ks, w)

(* -------------------- GF(2)[z] polynomials as bit strings --------------- *)

RECURSIVE ClMulRec(_, _, _)
ClMulRec(a, b, i) == IF i < 0 THEN <<>>
                     ELSE LET r == ClMulRec(a, b, i - 1)
                          IN IF BitPure(a, i) = 1 THEN BitXorPure(r, ShlPure(b, i)) ELSE r
ClMulPure(a, b) == ClMulRec(a, b, BitLenPure(a) - 1)
ClMul(a, b) == ClMulPure(a, b)

RECURSIVE PolyDivModRec(_, _, _)
PolyDivModRec(x, m, q) ==      \* m # 0
    IF BitLenPure(x) < BitLenPure(m) THEN <<q, NormPure(x)>>
    ELSE LET s == BitLenPure(x) - BitLenPure(m)
         IN PolyDivModRec(BitXorPure(x, ShlPure(m, s)), m, BitXorPure(q, Pow2(s)))
PolyModPure(a, m) == IF NormPure(m) = <<>> THEN NormPure(a) ELSE PolyDivModRec(a, m, <<>>)[2]
PolyDivPure(a, m) == IF NormPure(m) = <<>> THEN <<>> ELSE PolyDivModRec(a, m, <<>>)[1]
PolyMod(a, m) == PolyModPure(a, m)
PolyDiv(a, m) == PolyDivPure(a, m)

\* inverse of a modulo the irreducible polynomial m in GF(2)[z] (0 for 0): extended Euclid
RECURSIVE PolyInvRec(_, _, _, _)
PolyInvRec(r0, r1, t0, t1) ==
    IF NormPure(r1) = <<>> THEN (IF NormPure(r0) = <<1>> THEN t0 ELSE <<>>)
    ELSE LET q == PolyDivPure(r0, r1)
         IN PolyInvRec(r1, PolyModPure(r0, r1), t1, BitXorPure(t0, ClMulPure(q, t1)))
PolyInvModPure(a, m) == PolyModPure(PolyInvRec(NormPure(m), PolyModPure(a, m), <<>>, <<1>>), m)
PolyInvMod(a, m) == PolyInvModPure(a, m)

(* ---------------------------- representation ----------------------------- *)
\* Tup(f) = f.  TLC keeps [i \in 1..n |-> e] as an unevaluated lambda whose body
\* is re-evaluated at every application; chains of such functions (hash rounds)
\* then cost exponential time.  The override returns the same function as an
\* explicit tuple; the value is unchanged.
Tup(f) == f

(* ------------------------------ byte strings ---------------------------- *)

\* fixed-length little-endian encoding (value must be < 256^n)
ToBytesLE(a, n) == LET x == Norm(a) IN [i \in 1..n |-> ByteAt(x, i)]
ToBytesBE(a, n) == LET x == Norm(a) IN [i \in 1..n |-> ByteAt(x, n + 1 - i)]
FromBytesLE(b) == Norm(b)
FromBytesBE(b) == Norm([i \in 1..Len(b) |-> b[Len(b) + 1 - i]])
Fits(a, n) == Len(Norm(a)) <= n

\* 2^k - c, 2^k + c helpers for parameter definitions
Pow2Minus(k, c) == Sub(Pow2(k), c)
=============================================================================
