-------------------------------- MODULE XDH ---------------------------------
(***************************************************************************)
(* RFC 7748 section 5: the X25519 and X448 functions, verbatim: scalar     *)
(* clamping, u-coordinate decoding (top bit of X25519 masked, value        *)
(* reduced), the Montgomery ladder with conditional swaps, x/0 = 0.        *)
(***************************************************************************)
EXTENDS PrimeField, Consts, Integers, Sequences

XP(bits) == IF bits = 255 THEN Q25519 ELSE Q448
A24(bits) == IF bits = 255 THEN FromInt(121665) ELSE FromInt(39081)

ByteAnd(b, m) == ToInt(BitAnd(<<b>>, <<m>>))
ByteOr(b, m) == ToInt(BitOr(<<b>>, <<m>>))
Clamp25519(k) == FromBytesLE([k EXCEPT ![1] = ByteAnd(k[1], 248), ![32] = ByteOr(ByteAnd(k[32], 127), 64)])
Clamp448(k) == FromBytesLE([k EXCEPT ![1] = ByteAnd(k[1], 252), ![56] = ByteOr(k[56], 128)])
DecodeU25519(u) == Mod(FromBytesLE([u EXCEPT ![32] = ByteAnd(u[32], 127)]), Q25519)
DecodeU448(u) == Mod(FromBytesLE(u), Q448)

\* state <<x2, z2, x3, z3, swap>>
CSwap(s, a, b) == IF s = 1 THEN <<b, a>> ELSE <<a, b>>
RECURSIVE Ladder(_, _, _, _, _)
Ladder(bits, k, x1, st, t) ==
    IF t < 0 THEN st
    ELSE LET p == XP(bits)
             kt == Bit(k, t)
             sw == (st[5] + kt) % 2
             p2 == CSwap(sw, st[1], st[3])
             pz == CSwap(sw, st[2], st[4])
             x2 == p2[1]  x3 == p2[2]  z2 == pz[1]  z3 == pz[2]
             A == FAdd(p, x2, z2)   AA == FSq(p, A)
             B == FSub(p, x2, z2)   BB == FSq(p, B)
             E == FSub(p, AA, BB)
             C == FAdd(p, x3, z3)   D == FSub(p, x3, z3)
             DA == FMul(p, D, A)    CB == FMul(p, C, B)
             nx3 == FSq(p, FAdd(p, DA, CB))
             nz3 == FMul(p, x1, FSq(p, FSub(p, DA, CB)))
             nx2 == FMul(p, AA, BB)
             nz2 == FMul(p, E, FAdd(p, AA, FMul(p, A24(bits), E)))
         IN Ladder(bits, k, x1, <<nx2, nz2, nx3, nz3, kt>>, t - 1)
XFunc(bits, k, u) ==
    LET p == XP(bits)
        st == Ladder(bits, k, u, <<One, Zero, u, One, 0>>, bits - 1)
        x2 == CSwap(st[5], st[1], st[3])[1]
        z2 == CSwap(st[5], st[2], st[4])[1]
    IN FMul(p, x2, FInv(p, z2))
X25519(k, u) == ToBytesLE(XFunc(255, Clamp25519(k), DecodeU25519(u)), 32)
X448(k, u) == ToBytesLE(XFunc(448, Clamp448(k), DecodeU448(u)), 56)
U9 == [i \in 1..32 |-> IF i = 1 THEN 9 ELSE 0]
U5 == [i \in 1..56 |-> IF i = 1 THEN 5 ELSE 0]
=============================================================================
