------------------------------- MODULE Gls254 -------------------------------
(***************************************************************************)
(* GLS254 as documented by the crate: the curve E: y^2 + xy = x^3 + a x^2  *)
(* + b x over GF(2^254) with a = u, b = 1 + z^54, of order 2r, N = (0, 0)  *)
(* its point of order 2.  The group is { Q : Q + N in E[r] } with N as     *)
(* neutral and Q1 (+) Q2 = Q1 + Q2 + N; elements are encoded as            *)
(* w = sqrt(s/x) with s = y + x^2 + a x + b (0 for N).                     *)
(* A point is <<x, y>> (pairs of GF(2^254) elements) or GInf == <<>>.      *)
(***************************************************************************)
EXTENDS BinField, PrimeField

GA == B2U
GB == <<Bb127, Zero>>
GInf == <<>>
GN == <<B2Zero, B2Zero>>
GOn(P) == P = GInf \/
          LET x == P[1]  y == P[2]
          IN B2Add(B2Sq(y), B2Mul(x, y)) =
             B2Add(B2Add(B2Mul(B2Sq(x), x), B2Mul(GA, B2Sq(x))), B2Mul(GB, x))
ENeg(P) == IF P = GInf THEN GInf ELSE <<P[1], B2Add(P[1], P[2])>>
\* chord-and-tangent on E
EAdd(P, Q) ==
    IF P = GInf THEN Q
    ELSE IF Q = GInf THEN P
    ELSE IF P[1] = Q[1] /\ P[2] # Q[2] THEN GInf                      \* Q = -P (y2 = x1 + y1)
    ELSE IF P = Q /\ P[1] = B2Zero THEN GInf                           \* 2N = infinity
    ELSE LET lam == IF P = Q THEN B2Div(B2Add(B2Add(P[2], B2Sq(P[1])), GB), P[1])
                    ELSE B2Div(B2Add(P[2], Q[2]), B2Add(P[1], Q[1]))
             x3 == B2Add(B2Add(B2Add(B2Add(B2Sq(lam), lam), GA), P[1]), Q[1])
         IN <<x3, B2Add(B2Add(B2Mul(lam, B2Add(P[1], x3)), x3), P[2])>>
RECURSIVE EMulRec(_, _, _, _)
EMulRec(P, k, i, acc) ==
    IF i < 0 THEN acc
    ELSE LET d == EAdd(acc, acc) IN EMulRec(P, k, i - 1, IF Bit(k, i) = 1 THEN EAdd(d, P) ELSE d)
EMul(k, P) == EMulRec(P, k, BitLen(k) - 1, GInf)

\* the group
GlsNeutral == GN
GlsAdd(P, Q) == EAdd(EAdd(P, Q), GN)
GlsNeg(P) == ENeg(P)
GlsMul(k, P) == EAdd(EMul(k, EAdd(P, GN)), GN)
GlsS(P) == B2Add(B2Add(B2Add(P[2], B2Sq(P[1])), B2Mul(GA, P[1])), GB)
\* the crate gives the generator in scaled coordinates: x = sqrt(b)*X, s = sqrt(b)*S, sqrt(b) = 1 + z^27
GlsBase == LET x == B2Scale(<<GLS_GX0, GLS_GX1>>, Sb127)
               s == B2Scale(<<GLS_GS0, GLS_GS1>>, Sb127)
           IN <<x, B2Add(B2Add(B2Add(s, B2Sq(x)), B2Mul(GA, x)), GB)>>
GlsEncode(P) == IF P = GN THEN [i \in 1..32 |-> 0]
                ELSE B2Enc(B2Sqrt(B2Div(GlsS(P), P[1])))
\* solve x^2 + x = e (requires Tr(e) = 0): half-trace-free formulation by
\* checking both candidate roots of the linear map is expensive; instead use
\* the explicit solution over the quadratic extension:
\* for e in GF(2^254) with Tr254(e) = 0 a root exists; we find it by the
\* standard construction x = sum_{i} ... replaced here by a relational use
\* (see GlsDecode: the decoder only needs *a* root f, and both roots f, f + 1
\* give points P and P + (point of the other sign), handled by the trace rule).
\* Half-trace in GF(2^127) (odd degree): H(c) = sum_{i=0}^{63} c^(2^(2i)) solves H^2 + H = c + Tr(c)
RECURSIVE B1HtRec(_, _, _)
B1HtRec(x, acc, i) == IF i = 64 THEN acc ELSE B1HtRec(B1XSq(x, 2), B1Add(acc, x), i + 1)
B1HalfTrace(c) == B1HtRec(c, Zero, 0)
\* quadratic solver in GF(2^254): x with x^2 + x = e, for Tr254(e) = 0.
\* Write e = e0 + e1 u, x = x0 + x1 u: x^2 + x = (x0^2 + x1^2 + x0) + (x1^2 + x1) u.
\* So x1^2 + x1 = e1 (solvable: Tr127(e1) = Tr254(e) = 0), x0^2 + x0 = e0 + x1^2;
\* of the two roots x1, x1 + 1 exactly one makes Tr127(e0 + x1^2) = 0.
B2QSolve(e) ==
    LET h == B1HalfTrace(e[2])
        x1 == IF B1Tr(B1Add(e[1], B1Sq(h))) = Zero THEN h ELSE B1Add(h, One)
    IN <<B1HalfTrace(B1Add(e[1], B1Sq(x1))), x1>>
GlsDecode(b) ==
    IF ~B2DecOk(b) THEN <<FALSE, GN>>
    ELSE LET w == B2Dec(b)
         IN IF w = B2Zero THEN <<TRUE, GN>>
            ELSE LET d == B2Add(B2Add(B2Sq(w), w), GA)
                     e == B2Div(GB, B2Sq(d))
                 IN IF B2Tr(e) # Zero THEN <<FALSE, GN>>
                    ELSE LET f == B2QSolve(e)
                             x0 == B2Mul(d, f)
                             x == IF B2Tr(x0) = One THEN B2Add(x0, d) ELSE x0
                             s == B2Mul(x, B2Sq(w))
                         IN <<TRUE, <<x, B2Add(B2Add(B2Add(s, B2Sq(x)), B2Mul(GA, x)), GB)>>>>
\* mu: the even square root of -1 modulo r (the eigenvalue of the zeta endomorphism)
GlsMu == LET r == RGLS254
             \* r = 1 mod 4: a root of -1 is g^((r-1)/4) for a non-residue g; 2, 3, 5, ... are tried
             cand(g) == ModPow(g, Shr(Sub(r, One), 2), r)
             ok(g) == ModMul(cand(g), cand(g), r) = Sub(r, One)
             g0 == CHOOSE g \in {<<2>>, <<3>>, <<5>>, <<7>>, <<11>>, <<13>>} : ok(g)
             m == cand(g0)
         IN IF Bit(m, 0) = 0 THEN m ELSE Sub(r, m)
=============================================================================
