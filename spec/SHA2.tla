-------------------------------- MODULE SHA2 --------------------------------
(***************************************************************************)
(* FIPS 180-4: SHA-224, SHA-256, SHA-384, SHA-512, SHA-512/224 and         *)
(* SHA-512/256 over byte strings.  Words are BigNat values below 2^w.      *)
(***************************************************************************)
EXTENDS BigNat, Consts, Naturals, Sequences

\* ---- word functions, w = 32 (small) or 64 (big)
Ch(x, y, z, w)  == BitXor(BitAnd(x, y), BitAnd(NotW(x, w), z))
Maj(x, y, z)    == BitXor(BitXor(BitAnd(x, y), BitAnd(x, z)), BitAnd(y, z))
X3(a, b, c)     == BitXor(BitXor(a, b), c)
BSig0(x, w) == IF w = 32 THEN X3(RotR(x, 2, 32), RotR(x, 13, 32), RotR(x, 22, 32))
               ELSE X3(RotR(x, 28, 64), RotR(x, 34, 64), RotR(x, 39, 64))
BSig1(x, w) == IF w = 32 THEN X3(RotR(x, 6, 32), RotR(x, 11, 32), RotR(x, 25, 32))
               ELSE X3(RotR(x, 14, 64), RotR(x, 18, 64), RotR(x, 41, 64))
SSig0(x, w) == IF w = 32 THEN X3(RotR(x, 7, 32), RotR(x, 18, 32), Shr(x, 3))
               ELSE X3(RotR(x, 1, 64), RotR(x, 8, 64), Shr(x, 7))
SSig1(x, w) == IF w = 32 THEN X3(RotR(x, 17, 32), RotR(x, 19, 32), Shr(x, 10))
               ELSE X3(RotR(x, 19, 64), RotR(x, 61, 64), Shr(x, 6))
Add4(a, b, c, d, w) == LowBits(Add(Add(a, b), Add(c, d)), w)
Add5(a, b, c, d, e, w) == LowBits(Add(Add(Add(a, b), Add(c, d)), e), w)

ShaK(w) == IF w = 32 THEN SHA_K256 ELSE SHA_K512
NRounds(w) == IF w = 32 THEN 64 ELSE 80
BlockLen(w) == IF w = 32 THEN 64 ELSE 128

\* message schedule, built iteratively (W[t], 1-based)
RECURSIVE Schedule(_, _)
Schedule(W, w) ==
    IF Len(W) = NRounds(w) THEN W
    ELSE LET t == Len(W) + 1
         IN Schedule(Append(W, Add4(SSig1(W[t - 2], w), W[t - 7], SSig0(W[t - 15], w), W[t - 16], w)), w)

\* 64/80 rounds over the working variables <<a,b,c,d,e,f,g,h>>
RECURSIVE Rounds(_, _, _, _)
Rounds(v, W, t, w) ==
    IF t > NRounds(w) THEN v
    ELSE LET T1 == Add5(v[8], BSig1(v[5], w), Ch(v[5], v[6], v[7], w), ShaK(w)[t], W[t], w)
             T2 == AddW(BSig0(v[1], w), Maj(v[1], v[2], v[3]), w)
         IN Rounds(<<AddW(T1, T2, w), v[1], v[2], v[3], AddW(v[4], T1, w), v[5], v[6], v[7]>>,
                   W, t + 1, w)

WordsBE(block, w) == LET n == w \div 8
                     IN Tup([i \in 1..16 |-> FromBytesBE(SubSeq(block, n * (i - 1) + 1, n * i))])

Compress(H, block, w) ==
    LET W == Schedule(WordsBE(block, w), w)
        v == Rounds(H, W, 1, w)
    IN Tup([i \in 1..8 |-> AddW(H[i], v[i], w)])

\* padding: 0x80, zeros, message bit length on 8 (w=32) or 16 (w=64) bytes, big-endian
ShaPad(msg, w) ==
    LET bl == BlockLen(w)
        ll == bl \div 8
        z  == (2 * bl - ((Len(msg) + 1 + ll) % bl)) % bl
    IN msg \o <<128>> \o [i \in 1..z |-> 0] \o ToBytesBE(Mul(FromInt(Len(msg)), <<8>>), ll)

\* the same with `extra` more bytes (a whole number of blocks, a BigNat) counted in the length field: what an instance
\* whose byte counter was advanced without processing data must produce
ShaPadX(msg, w, extra) ==
    LET bl == BlockLen(w)
        ll == bl \div 8
        z  == (2 * bl - ((Len(msg) + 1 + ll) % bl)) % bl
    IN msg \o <<128>> \o [i \in 1..z |-> 0] \o ToBytesBE(LowBits(Mul(Add(FromInt(Len(msg)), extra), <<8>>), 8 * ll), ll)

RECURSIVE ShaAbsorb(_, _, _, _)
ShaAbsorb(H, padded, i, w) ==
    IF i > Len(padded) THEN H
    ELSE ShaAbsorb(Compress(H, SubSeq(padded, i, i + BlockLen(w) - 1), w), padded, i + BlockLen(w), w)

\* concatenation of the big-endian words, truncated to outlen bytes
RECURSIVE CatBE(_, _, _)
CatBE(H, i, n) == IF i > Len(H) THEN <<>> ELSE ToBytesBE(H[i], n) \o CatBE(H, i + 1, n)
ShaHash(msg, iv, w, outlen) == SubSeq(CatBE(ShaAbsorb(iv, ShaPad(msg, w), 1, w), 1, w \div 8), 1, outlen)

\* FIPS 180-4 section 5.3.6: IV generation function of SHA-512/t
A5 == [i \in 1..8 |-> 165]
Sha512tIV(name) ==
    ShaAbsorb(Tup([i \in 1..8 |-> BitXor(SHA_IV512[i], FromBytesLE(A5))]), ShaPad(name, 64), 1, 64)
\* "SHA-512/224", "SHA-512/256" in ASCII
Name512_224 == <<83, 72, 65, 45, 53, 49, 50, 47, 50, 50, 52>>
Name512_256 == <<83, 72, 65, 45, 53, 49, 50, 47, 50, 53, 54>>
IV512_224 == Sha512tIV(Name512_224)
IV512_256 == Sha512tIV(Name512_256)

ShaHashX(msg, iv, w, outlen, extra) == SubSeq(CatBE(ShaAbsorb(iv, ShaPadX(msg, w, extra), 1, w), 1, w \div 8), 1, outlen)
SHA224(m) == ShaHash(m, SHA_IV224, 32, 28)
SHA256(m) == ShaHash(m, SHA_IV256, 32, 32)
SHA384(m) == ShaHash(m, SHA_IV384, 64, 48)
SHA512(m) == ShaHash(m, SHA_IV512, 64, 64)
SHA512_224(m) == ShaHash(m, IV512_224, 64, 28)
SHA512_256(m) == ShaHash(m, IV512_256, 64, 32)
=============================================================================
