------------------------------ MODULE BinField ------------------------------
(***************************************************************************)
(* The binary fields of GLS254: GF(2^127) = GF(2)[z]/(z^127 + z^63 + 1)    *)
(* (elements are BigNat bit strings of degree < 127) and GF(2^254) =       *)
(* GF(2^127)[u]/(u^2 + u + 1) (elements are pairs <<x0, x1>> = x0 + x1*u). *)
(***************************************************************************)
EXTENDS BigNat, Consts, Naturals, Sequences

M127 == ZMOD127
B1Red(x) == PolyMod(x, M127)
B1Add(a, b) == BitXor(a, b)
B1Mul(a, b) == PolyMod(ClMul(a, b), M127)
B1Sq(a) == B1Mul(a, a)
RECURSIVE B1XSq(_, _)
B1XSq(a, n) == IF n = 0 THEN a ELSE B1XSq(B1Sq(a), n - 1)
\* a^(2^127 - 2) by square-and-multiply: inverse (0 for 0)
RECURSIVE B1InvRec(_, _, _)
B1InvRec(a, acc, i) ==      \* acc = a^(2^i - 1)
    IF i = 126 THEN B1Sq(acc) ELSE B1InvRec(a, B1Mul(B1Sq(acc), a), i + 1)
\* (B1InvRec is the Fermat form; PolyInvMod is the same function by extended Euclid)
B1Inv(a) == PolyInvMod(a, M127)
B1Div(a, b) == B1Mul(a, B1Inv(b))
B1Sqrt(a) == B1XSq(a, 126)
\* trace: sum of the 127 conjugates (0 or 1, as a field element)
RECURSIVE B1TrRec(_, _, _)
B1TrRec(x, acc, i) == IF i = 127 THEN acc ELSE B1TrRec(B1Sq(x), B1Add(acc, x), i + 1)
B1Tr(a) == B1TrRec(a, Zero, 0)
Z1 == <<2>>           \* the element z
Sb127 == Add(One, Pow2(27))
Bb127 == Add(One, Pow2(54))

(* ------------------------------- GF(2^254) ------------------------------ *)
B2Zero == <<Zero, Zero>>
B2One == <<One, Zero>>
B2U == <<Zero, One>>
B2Add(a, b) == <<B1Add(a[1], b[1]), B1Add(a[2], b[2])>>
\* (a0 + a1 u)(b0 + b1 u) = (a0 b0 + a1 b1) + (a0 b1 + a1 b0 + a1 b1) u
B2Mul(a, b) == LET p00 == B1Mul(a[1], b[1])  p11 == B1Mul(a[2], b[2])
               IN <<B1Add(p00, p11), B1Add(B1Add(B1Mul(a[1], b[2]), B1Mul(a[2], b[1])), p11)>>
B2Sq(a) == B2Mul(a, a)
RECURSIVE B2XSq(_, _)
B2XSq(a, n) == IF n = 0 THEN a ELSE B2XSq(B2Sq(a), n - 1)
\* conjugate over GF(2^127): u -> u + 1
B2Conj(a) == <<B1Add(a[1], a[2]), a[2]>>
\* norm a * conj(a) = a0^2 + a0 a1 + a1^2 in GF(2^127)
B2Norm(a) == B1Add(B1Add(B1Sq(a[1]), B1Mul(a[1], a[2])), B1Sq(a[2]))
B2Inv(a) == LET ni == B1Inv(B2Norm(a)) IN <<B1Mul(B1Add(a[1], a[2]), ni), B1Mul(a[2], ni)>>
B2Div(a, b) == B2Mul(a, B2Inv(b))
B2Sqrt(a) == B2XSq(a, 253)
B2Tr(a) == B1Tr(a[2])                     \* Tr(a0 + a1 u) = Tr127(a1)
B2Scale(a, c) == <<B1Mul(a[1], c), B1Mul(a[2], c)>>     \* by an element of GF(2^127)
\* wire format: x0 || x1, 16 bytes each, little-endian, bit 127 of each half clear
B1Enc(a) == ToBytesLE(a, 16)
B2Enc(a) == B1Enc(a[1]) \o B1Enc(a[2])
B1DecOk(b) == Len(b) = 16 /\ b[16] < 128
B2DecOk(b) == Len(b) = 32 /\ b[16] < 128 /\ b[32] < 128
B2Dec(b) == <<FromBytesLE(SubSeq(b, 1, 16)), FromBytesLE(SubSeq(b, 17, 32))>>
\* the raw constructors admit any 128-bit pattern per half: z^127 folds
B2Raw(b) == <<B1Red(FromBytesLE(SubSeq(b, 1, 16))), B1Red(FromBytesLE(SubSeq(b, 17, 32)))>>
=============================================================================
