----------------------------- MODULE AlgDivRound -----------------------------
(***************************************************************************)
(* Design-level model of mul_divr_rounded (gls254.rs; jq255e.rs and        *)
(* secp256k1.rs use the mirrored form): round(k*e / r) for r = 2^n + r0    *)
(* without a division:                                                     *)
(*     z  = k*e + (r-1)/2                                                  *)
(*     z  = z0 + z1*2^n            (trunc_and_rsh_cc)                       *)
(*     t  = z1*r0                                                          *)
(*     z1 - borrow(z0 - t)         (set_sub_u32 on a two-limb integer)     *)
(* The argument in the source needs z1*r0 < 2^n.  With n = 8, r0 = 13      *)
(* (r = 269, prime), e < 14 and limbs of LB bits, TLC enumerates EVERY     *)
(* (k, e) and checks the result against floor((k*e + (r-1)/2) / r); the    *)
(* decrement is carried out limb-wise as in Zu128::set_sub_u32 so that the *)
(* borrow from the low limb into the high limb is part of the model (this  *)
(* is the step three seeded changes removed).                              *)
(***************************************************************************)
EXTENDS Integers, TLC

CONSTANTS NBits, R0, EMax, LB,
          NoCorrection,      \* TRUE: return z1 without the -1 correction
          NoLimbBorrow       \* TRUE: the decrement does not borrow from the high limb (C04-a / C11-c / C18-b)
ASSUME EMax * R0 + R0 < 2 ^ NBits      \* the no-overflow condition of the source's argument (z1 <= e + 1)

T == 2 ^ NBits
R == T + R0
Base == 2 ^ LB

VARIABLES k, e, done
vars == <<k, e, done>>

\* two-limb decrement by b in {0, 1}
SubU32(x, b) ==
    LET l0 == x % Base   l1 == (x \div Base) % Base
        d0 == (l0 - b) % Base
        cc == IF l0 - b < 0 THEN 1 ELSE 0
        d1 == IF NoLimbBorrow THEN l1 ELSE (l1 - cc) % Base
    IN d0 + Base * d1
MulDivrRounded(kk, ee) ==
    LET z == kk * ee + (R - 1) \div 2
        z0 == z % T
        z1 == z \div T
        t == z1 * R0
        borrow == IF z0 - t < 0 THEN 1 ELSE 0
    IN IF NoCorrection THEN z1 ELSE SubU32(z1, borrow)

Init == k \in 0..(R - 1) /\ e \in 0..EMax /\ done = FALSE
Next == ~done /\ done' = TRUE /\ UNCHANGED <<k, e>>
Spec == Init /\ [][Next]_vars

Correct == MulDivrRounded(k, e) = (k * e + (R - 1) \div 2) \div R
\* the two-limb representation is wide enough, and the interesting case occurs
FitsLimbs == (k * e + (R - 1) \div 2) \div T < Base * Base
\* vacuity guards, checked as "must be violated" by the _reach configuration
NeverBorrowAcrossLimbs ==
    LET z == k * e + (R - 1) \div 2 IN ~((z \div T) % Base = 0 /\ (z % T) - (z \div T) * R0 < 0 /\ z \div T > 0)
=============================================================================
