----------------------------- MODULE TraceFrost -----------------------------
(***************************************************************************)
(* Trace specification for FROST (C15).  Every event carries the wire      *)
(* encodings of its inputs and outputs; TLC decodes them with the RFC 9591 *)
(* serialization rules and recomputes every decision and value from        *)
(* Frost.tla: share consistency with the VSS commitment, commitments from  *)
(* nonces, the coordinator's choice (relationally), signature shares,      *)
(* share verification, aggregation, group-signature verification (and      *)
(* plain RFC 8032 verification for the Edwards suites), and the strict     *)
(* decoders of every wire format.                                          *)
(***************************************************************************)
EXTENDS Frost, FiniteSets, TLC, Json, IOUtils
ED == INSTANCE EdDSA

Rec == ndJsonDeserialize(IOEnv.TRACE)
N == Len(Rec)
VARIABLES l, s
vars == <<l, s>>
e == Rec[l]
Has(f) == f \in DOMAIN e
Is(op) == l <= N /\ e.op = op
Chk(ok) == IF ok THEN TRUE ELSE PrintT(<<"MISMATCH", l, e.op>>)
Step(ok) == Chk(ok) /\ l' = l + 1 /\ UNCHANGED s

Init == l = 1 /\ s = "ed25519"
DoInit == Is("init") /\ Chk(e.suite \in Suites) /\ l' = l + 1 /\ s' = e.suite

(* ------------------------------ wire formats ---------------------------- *)
Ns == NS(s)
Ne == NE(s)
Cut(b, i, n) == SubSeq(b, i + 1, i + n)
\* identifiers must be non-zero canonical scalars
IdDec(b) == LET d == ScDec(s, b) IN <<d[1] /\ d[2] # Zero, d[2]>>
CommDecX(b, strict) ==
    IF Len(b) # Ns + 2 * Ne THEN [ok |-> FALSE]
    ELSE LET i == IdDec(Cut(b, 0, Ns))  h == PtDecX(s, Cut(b, Ns, Ne), strict)  d == PtDecX(s, Cut(b, Ns + Ne, Ne), strict)
         IN [ok |-> i[1] /\ h[1] /\ d[1], id |-> i[2], hid |-> h[2], bnd |-> d[2]]
ShareDecX(b, strict) ==      \* identifier, secret share (non-zero), group public key
    IF Len(b) # 2 * Ns + Ne THEN [ok |-> FALSE]
    ELSE LET i == IdDec(Cut(b, 0, Ns))  k == ScDec(s, Cut(b, Ns, Ns))  g == PtDecX(s, Cut(b, 2 * Ns, Ne), strict)
         IN [ok |-> i[1] /\ k[1] /\ k[2] # Zero /\ g[1], id |-> i[2], sk |-> k[2], gpk |-> g[2],
             gpkEnc |-> Cut(b, 2 * Ns, Ne)]
NonceDec(b) ==
    IF Len(b) # 3 * Ns THEN [ok |-> FALSE]
    ELSE LET i == IdDec(Cut(b, 0, Ns))  h == ScDec(s, Cut(b, Ns, Ns))  d == ScDec(s, Cut(b, 2 * Ns, Ns))
         IN [ok |-> i[1] /\ h[1] /\ d[1], id |-> i[2], hn |-> h[2], bn |-> d[2]]
SigShareDec(b) ==
    IF Len(b) # 2 * Ns THEN [ok |-> FALSE]
    ELSE LET i == IdDec(Cut(b, 0, Ns))  z == ScDec(s, Cut(b, Ns, Ns))
         IN [ok |-> i[1] /\ z[1], id |-> i[2], z |-> z[2]]
SigDecX(b, strict) ==
    IF Len(b) # Ne + Ns THEN [ok |-> FALSE]
    ELSE LET r == PtDecX(s, Cut(b, 0, Ne), strict)  z == ScDec(s, Cut(b, Ne, Ns))
         IN [ok |-> r[1] /\ z[1], R |-> r[2], z |-> z[2]]
SpkDecX(b, strict) ==
    IF Len(b) # Ns + Ne THEN [ok |-> FALSE]
    ELSE LET i == IdDec(Cut(b, 0, Ns))  p == PtDecX(s, Cut(b, Ns, Ne), strict)
         IN [ok |-> i[1] /\ p[1], id |-> i[2], pk |-> p[2]]
GpkDecX(b, strict) == LET p == PtDecX(s, b, strict) IN [ok |-> p[1], pk |-> p[2]]
GskDec(b) == LET k == ScDec(s, b) IN [ok |-> k[1] /\ k[2] # Zero, sk |-> k[2]]
CommDec(b) == CommDecX(b, FALSE)
ShareDec(b) == ShareDecX(b, FALSE)
SigDec(b) == SigDecX(b, TRUE)
SpkDec(b) == SpkDecX(b, FALSE)
GpkDec(b) == GpkDecX(b, FALSE)
AllOk(S) == \A i \in 1..Len(S) : S[i].ok
CommList(bs) == [i \in 1..Len(bs) |-> CommDec(bs[i])]
VssList(bs) == [i \in 1..Len(bs) |-> PtDecX(s, bs[i], FALSE)]

\* list decoders: at least two entries, no trailing bytes, every entry well formed; commitment lists in
\* strictly ascending NUMERICAL order of identifiers (hence no duplicate)
LenC == Ns + 2 * Ne
CommListDecOk(b) ==
    /\ Len(b) % LenC = 0 /\ Len(b) \div LenC >= 2
    /\ LET n == Len(b) \div LenC
           ent(i) == CommDecX(Cut(b, (i - 1) * LenC, LenC), TRUE)
       IN /\ \A i \in 1..n : ent(i).ok
          /\ \A i \in 1..(n - 1) : Lt(ent(i).id, ent(i + 1).id)
VssListDecOk(b) ==
    /\ Len(b) % Ne = 0 /\ Len(b) \div Ne >= 2
    /\ \A i \in 1..(Len(b) \div Ne) : PtDecX(s, Cut(b, (i - 1) * Ne, Ne), TRUE)[1]
\* strict decoders: accepted exactly when well formed, and re-encoding gives the input back
DecodeOk(kind, b) ==
    CASE kind = "share" -> ShareDecX(b, TRUE).ok [] kind = "nonce" -> NonceDec(b).ok [] kind = "comm" -> CommDecX(b, TRUE).ok
      [] kind = "sigshare" -> SigShareDec(b).ok [] kind = "sig" -> SigDecX(b, TRUE).ok [] kind = "spk" -> SpkDecX(b, TRUE).ok
      [] kind = "gpk" -> GpkDecX(b, TRUE).ok [] kind = "gsk" -> GskDec(b).ok
      [] kind = "commlist" -> CommListDecOk(b) [] kind = "vsslist" -> VssListDecOk(b)
DoCodec == Is("codec") /\ Step(/\ Has("some") /\ e.some = DecodeOk(e.kind, e["in"])
                               /\ (e.some => Has("out") /\ e.out = e["in"]))

(* ------------------------------ key generation -------------------------- *)
\* trusted dealer: n shares with identifiers 1..n on a degree t-1 polynomial whose
\* coefficients are committed in vss; vss[1] is the group public key
DoSplit ==
    /\ Is("split")
    /\ LET g == GskDec(e.gsk)
           sh == [i \in 1..Len(e.shares) |-> ShareDec(e.shares[i])]
           vs == VssList(e.vss)
           gpkEnc == PtEnc(s, GMul(s, g.sk, GBase(s)))
       IN Step(/\ g.ok /\ Len(e.shares) = e.n /\ Len(e.vss) = e.t
               /\ e.gpk = gpkEnc
               /\ AllOk(sh) /\ \A j \in 1..Len(vs) : vs[j][1]
               /\ e.vss[1] = gpkEnc
               /\ \A i \in 1..e.n : /\ sh[i].id = FromInt(i) /\ sh[i].gpkEnc = gpkEnc
                                    /\ VssOk(s, [j \in 1..Len(vs) |-> vs[j][2]], sh[i].id, sh[i].sk))
DoVerifySplit ==
    /\ Is("verify_split")
    /\ LET sh == ShareDec(e.share)
           vs == VssList(e.vss)
       IN Step(Has("res") /\ sh.ok /\ (\A j \in 1..Len(vs) : vs[j][1])
               /\ e.res = VssOk(s, [j \in 1..Len(vs) |-> vs[j][2]], sh.id, sh.sk))
DoSignerKey ==      \* public key of a share, and the derivation of all signer keys from the VSS commitment
    /\ Is("signer_pk")
    /\ LET sh == ShareDec(e.share)
       IN Step(sh.ok /\ Has("spk") /\ e.spk = ScEnc(s, sh.id) \o PtEnc(s, GMul(s, sh.sk, GBase(s))))
DoDerive ==
    /\ Is("derive_group_info")
    /\ LET vs == VssList(e.vss)
           pts == [j \in 1..Len(vs) |-> vs[j][2]]
       IN Step(/\ \A j \in 1..Len(vs) : vs[j][1]
               /\ Has("spks") /\ Len(e.spks) = e.n /\ e.gpk = e.vss[1]
               /\ \A i \in 1..e.n : e.spks[i] = ScEnc(s, FromInt(i)) \o PtEnc(s, VssEval(s, pts, FromInt(i), 1, One)))

(* ------------------------------ signing rounds -------------------------- *)
DoCommit ==
    /\ Is("commit")
    /\ LET sh == ShareDec(e.share)
           nn == NonceDec(e.nonce)
       IN Step(/\ sh.ok /\ nn.ok /\ nn.id = sh.id
               /\ e.comm = ScEnc(s, nn.id) \o PtEnc(s, GMul(s, nn.hn, GBase(s))) \o PtEnc(s, GMul(s, nn.bn, GBase(s))))
\* coordinator: None iff fewer than t distinct identifiers were offered; otherwise exactly t
\* of the offered commitments, strictly sorted by identifier
DoChoose ==
    /\ Is("choose")
    /\ LET inn == CommList(e["in"])
           ids == {inn[i].id : i \in 1..Len(inn)}
       IN Step(/\ AllOk(inn) /\ Has("some")
               /\ e.some = (Cardinality(ids) >= e.t)
               /\ (e.some => /\ Len(e.out) = e.t
                             /\ \A i \in 1..Len(e.out) : \E j \in 1..Len(e["in"]) : e.out[i] = e["in"][j]
                             /\ ListOk(CommList(e.out))))
DoSign ==
    /\ Is("sign")
    /\ LET sh == ShareDec(e.share)
           nn == NonceDec(e.nonce)
           own == CommDec(e.comm)
           L == CommList(e.list)
           valid == /\ AllOk(L) /\ ListOk(L) /\ InList(L, sh.id)
                    /\ Entry(L, sh.id).hid = own.hid /\ Entry(L, sh.id).bnd = own.bnd
       IN Step(/\ sh.ok /\ nn.ok /\ own.ok /\ Has("some")
               /\ e.some = valid
               /\ (valid => e.out = ScEnc(s, sh.id)
                                    \o ScEnc(s, SignShare(s, sh.gpkEnc, L, e.msg, sh.id, sh.sk, nn.hn, nn.bn))))
DoVerifyShare ==
    /\ Is("verify_share")
    /\ LET pk == SpkDec(e.spk)
           ss == SigShareDec(e.ss)
           L == CommList(e.list)
       IN Step(/\ pk.ok /\ ss.ok /\ AllOk(L) /\ ListOk(L) /\ Has("res")      \* documented domain: a sorted list
               /\ e.res = (ss.id = pk.id /\ ShareOk(s, e.gpk, L, e.msg, pk.id, ss.z, pk.pk)))
\* aggregation: fails unless every listed commitment has a share and a signer key that verify
DoAssemble ==
    /\ Is("assemble")
    /\ LET L == CommList(e.list)
           sss == [i \in 1..Len(e.shares) |-> SigShareDec(e.shares[i])]
           pks == [i \in 1..Len(e.spks) |-> SpkDec(e.spks[i])]
           g == GpkDec(e.gpk)
           HasBoth(id) == (\E i \in 1..Len(sss) : sss[i].id = id) /\ (\E i \in 1..Len(pks) : pks[i].id = id)
           First(S, id) == S[CHOOSE i \in 1..Len(S) : S[i].id = id /\ \A j \in 1..(i - 1) : S[j].id # id]
           good == \A k \in 1..Len(L) :
                      /\ HasBoth(L[k].id)
                      /\ ShareOk(s, e.gpk, L, e.msg, L[k].id, First(sss, L[k].id).z, First(pks, L[k].id).pk)
           R == GroupCommitment(s, e.gpk, L, e.msg)
           RECURSIVE SumZ(_)
           SumZ(k) == IF k > Len(L) THEN Zero ELSE ModAdd(First(sss, L[k].id).z, SumZ(k + 1), Ord(s))
       IN Step(/\ AllOk(L) /\ ListOk(L) /\ AllOk(sss) /\ AllOk(pks) /\ g.ok /\ Has("some")
               /\ e.some = (good /\ SigOk(s, e.gpk, g.pk, R, SumZ(1), e.msg))
               /\ (e.some => e.sig = PtEnc(s, R) \o ScEnc(s, SumZ(1))))
DoVerify ==
    /\ l <= N /\ e.op \in {"verify", "verify_esig"}
    /\ LET g == GpkDec(e.gpk)
           sg == SigDec(e.sig)
       IN Step(/\ g.ok /\ Has("res")
               /\ e.res = (sg.ok /\ SigOk(s, e.gpk, g.pk, sg.R, sg.z, e.msg)))
\* the Edwards suites interoperate with the plain RFC 8032 verifier
DoPlainVerify ==
    /\ Is("plain_verify")
    /\ Step(Has("res") /\ e.res = ED!Verify(s = "ed448", "raw", e.gpk, e.sig, <<>>, e.msg))
\* single-signer signatures by the group key holder verify as well
DoGroupSign ==
    /\ Is("group_sign")
    /\ LET g == GskDec(e.gsk)
           sg == SigDec(e.sig)
           pk == GMul(s, g.sk, GBase(s))
       IN Step(/\ g.ok /\ sg.ok /\ SigOk(s, PtEnc(s, pk), pk, sg.R, sg.z, e.msg)
               /\ (Has("again") => e.again = e.sig))          \* the seeded variant is deterministic

Next == \/ DoInit \/ DoCodec \/ DoSplit \/ DoVerifySplit \/ DoSignerKey \/ DoDerive
        \/ DoCommit \/ DoChoose \/ DoSign \/ DoVerifyShare \/ DoAssemble
        \/ DoVerify \/ DoPlainVerify \/ DoGroupSign
Spec == Init /\ [][Next]_vars
Consumed == TLCGet("stats").diameter - 1
TraceDone == PrintT(<<"TRACE_CONSUMED", Consumed, N>>) /\ Consumed = N
=============================================================================
