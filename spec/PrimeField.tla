----------------------------- MODULE PrimeField -----------------------------
(***************************************************************************)
(* Arithmetic of the prime field Z/qZ over BigNat values in 0..q-1, and    *)
(* the canonical fixed-length little-endian codec crrl documents for all   *)
(* its field and scalar types.  q is always passed explicitly.             *)
(***************************************************************************)
EXTENDS BigNat, Integers, Sequences

Two == <<2>>

FCanon(q, x)   == Mod(x, q)
FAdd(q, a, b)  == ModAdd(a, b, q)
FSub(q, a, b)  == ModSub(a, b, q)
FNeg(q, a)     == ModSub(Zero, a, q)
FMul(q, a, b)  == ModMul(a, b, q)
FSq(q, a)      == ModMul(a, a, q)
\* n successive squarings: a^(2^n)
FXSq(q, a, n)  == ModPow(a, Pow2(n), q)
\* a/2: the unique h with 2h = a
FHalf(q, a)    == IF Bit(a, 0) = 0 THEN Shr(a, 1) ELSE Shr(Add(a, q), 1)
\* multiplication by a small public integer k (a BigNat)
FMulK(q, a, k) == ModMul(a, k, q)
\* inverse by Fermat (q prime); 1/0 = 0
FInv(q, a)     == ModPow(a, Sub(q, Two), q)
\* division with the documented convention x/0 = 0
FDiv(q, a, b)  == ModMul(a, FInv(q, b), q)

\* Euler's criterion: 0, 1 or -1
Legendre(q, a) == LET e == ModPow(a, Shr(Sub(q, One), 1), q)
                  IN IF e = Zero THEN 0 ELSE IF e = One THEN 1 ELSE -1
IsSquare(q, a) == Legendre(q, a) >= 0
IsRootOf(q, r, a) == FSq(q, r) = a
IsEven(a) == Bit(a, 0) = 0

\* signed small integers given as (neg, magnitude)
FFromSigned(q, neg, mag) == IF neg THEN FNeg(q, Mod(mag, q)) ELSE Mod(mag, q)

(* ------------------------------- codec ---------------------------------- *)

Enc(len, a) == ToBytesLE(a, len)
\* strict decoding: exact length and value below the modulus
DecStrictOk(q, len, b) == Len(b) = len /\ Lt(FromBytesLE(b), q)
DecStrictVal(q, len, b) == IF DecStrictOk(q, len, b) THEN FromBytesLE(b) ELSE Zero
\* reducing decoding: any length
DecReduce(q, b) == Mod(FromBytesLE(b), q)

(* ---------------------- scalar splitting contract ----------------------- *)
(* (c0, c1) signed integers given as (neg, mag).  k*c1 = c0 (mod q), c1    *)
(* nonzero mod q.                                                          *)
SVal(q, neg, mag) == FFromSigned(q, neg, mag)
SplitHolds(q, k, n0, m0, n1, m1) ==
    /\ SVal(q, n1, m1) # Zero
    /\ FMul(q, k, SVal(q, n1, m1)) = SVal(q, n0, m0)
=============================================================================
