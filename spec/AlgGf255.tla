------------------------------ MODULE AlgGf255 ------------------------------
(***************************************************************************)
(* Limb-level model of the carry chains of GF255<MQ> (gf255_m64.rs):       *)
(* set_add, set_sub and set_neg on N limbs of W bits, modulus              *)
(* q = 2^(N*W - 1) - MQ, with the folding rule 2^(N*W) = 2*MQ (mod q).     *)
(* Scaled to W = 3, N = 4 (12-bit values, q = 2^11 - MQ), TLC enumerates   *)
(* EVERY pair of limb patterns -- all redundant representations -- and     *)
(* checks that the result limbs represent (a op b) mod q; the second fold  *)
(* (double carry / double borrow) is reached and necessary, which the      *)
(* variant DropSecondFold = TRUE demonstrates by failing.                  *)
(***************************************************************************)
EXTENDS Integers, TLC

CONSTANTS W, MQ, DropSecondFold, WrongFoldSign,
          AllPairs      \* TRUE: every pair of limb patterns; FALSE: every pattern against the boundary patterns
\* the code's no-overflow argument for the second fold needs 4*MQ <= 2^W (true for 64-bit limbs and MQ < 2^15)
ASSUME 4 * MQ <= 2 ^ W
N == 4
B == 2 ^ W
T == B ^ N                \* 2^(N*W)
Q == T \div 2 - MQ

VARIABLES a, b, done
vars == <<a, b, done>>

Limb(x, i) == (x \div (B ^ i)) % B
\* add with carry / subtract with borrow on one limb: <<digit, carry>>
Adc(x, y, c) == <<(x + y + c) % B, (x + y + c) \div B>>
Sbb(x, y, c) == <<(x - y - c) % B, IF x - y - c < 0 THEN 1 ELSE 0>>
Val(d) == d[1] + B * d[2] + B * B * d[3] + B * B * B * d[4]

SetAdd(x, y) ==
    LET s0 == Adc(Limb(x, 0), Limb(y, 0), 0)     s1 == Adc(Limb(x, 1), Limb(y, 1), s0[2])
        s2 == Adc(Limb(x, 2), Limb(y, 2), s1[2]) s3 == Adc(Limb(x, 3), Limb(y, 3), s2[2])
        \* 2. on an output carry subtract 2q, i.e. add 2*MQ
        f0 == Adc(s0[1], s3[2] * 2 * MQ, 0)  f1 == Adc(s1[1], 0, f0[2])
        f2 == Adc(s2[1], 0, f1[2])           f3 == Adc(s3[1], 0, f2[2])
        \* 3. on a second carry add 2*MQ again (cannot overflow the low limb)
        g0 == IF DropSecondFold THEN f0[1] ELSE (f0[1] + f3[2] * 2 * MQ) % B
    IN <<g0, f1[1], f2[1], f3[1]>>
SetSub(x, y) ==
    LET s0 == Sbb(Limb(x, 0), Limb(y, 0), 0)     s1 == Sbb(Limb(x, 1), Limb(y, 1), s0[2])
        s2 == Sbb(Limb(x, 2), Limb(y, 2), s1[2]) s3 == Sbb(Limb(x, 3), Limb(y, 3), s2[2])
        f0 == Sbb(s0[1], s3[2] * 2 * MQ, 0)  f1 == Sbb(s1[1], 0, f0[2])
        f2 == Sbb(s2[1], 0, f1[2])           f3 == Sbb(s3[1], 0, f2[2])
        g0 == IF DropSecondFold THEN f0[1]
              ELSE IF WrongFoldSign THEN (f0[1] + f3[2] * 2 * MQ) % B      \* the seeded defect C01-a
              ELSE (f0[1] - f3[2] * 2 * MQ) % B
    IN <<g0, f1[1], f2[1], f3[1]>>
SetNeg(x) ==
    LET s0 == Sbb((0 - 2 * MQ) % B, Limb(x, 0), 0)  s1 == Sbb(B - 1, Limb(x, 1), s0[2])
        s2 == Sbb(B - 1, Limb(x, 2), s1[2])          s3 == Sbb(B - 1, Limb(x, 3), s2[2])
        e == s3[2]
        \* 2. if negative add back q = 2^(NW-1) - MQ
        f0 == Adc(s0[1], e * ((0 - MQ) % B), 0)  f1 == Adc(s1[1], e * (B - 1), f0[2])
        f2 == Adc(s2[1], e * (B - 1), f1[2])     f3 == Adc(s3[1], e * (B \div 2 - 1), f2[2])
    IN <<f0[1], f1[1], f2[1], f3[1]>>

Boundary == {0, 1, 2, 2 * MQ - 1, 2 * MQ, 2 * MQ + 1, Q - 1, Q, Q + 1, 2 * Q - 1, 2 * Q, 2 * Q + 1,
             T - 1, T - 2, T - 2 * MQ, T - 2 * MQ - 1, T - 2 * MQ + 1, T \div 2, T \div 2 - 1, B - 1, B, T - B}
Init == /\ a \in 0..(T - 1) /\ done = FALSE
        /\ b \in (IF AllPairs THEN 0..(T - 1) ELSE Boundary)
Next == ~done /\ done' = TRUE /\ UNCHANGED <<a, b>>
Spec == Init /\ [][Next]_vars

\* both operand orders, so that the boundary patterns appear on either side
AddOk == Val(SetAdd(a, b)) % Q = (a + b) % Q /\ Val(SetAdd(b, a)) % Q = (a + b) % Q
SubOk == Val(SetSub(a, b)) % Q = (a - b) % Q /\ Val(SetSub(b, a)) % Q = (b - a) % Q
NegOk == Val(SetNeg(a)) % Q = (0 - a) % Q
=============================================================================
