----------------------------- MODULE AlgFormulas ----------------------------
(***************************************************************************)
(* Design-level check of the projective formulas the implementation uses,  *)
(* on toy curves small enough to enumerate: for ALL ordered pairs of       *)
(* points and several projective scalings of each operand, the formula     *)
(* output represents the sum given by the affine group law, and is again a *)
(* valid representation (so results can be fed back).  This is where "no   *)
(* exceptional case" is decided for the formulas themselves:               *)
(*  - Renes-Costello-Batina complete addition for a = -3 (p256.rs          *)
(*    set_add) and the Bernstein-Lange doubling with the neutral fix-up    *)
(*    (set_double), on y^2 = x^3 - 3x + 4 over GF(29) (31 points, prime);  *)
(*  - RFC 8032 section 5.1.4 extended-coordinate addition and doubling     *)
(*    (ed25519.rs set_add / set_double) on -x^2 + y^2 = 1 + 11 x^2 y^2     *)
(*    over GF(109) (104 = 8 * 13 points: full 8-torsion, like              *)
(*    edwards25519).                                                       *)
(***************************************************************************)
EXTENDS Integers, FiniteSets, TLC

CONSTANT Family          \* "w" or "ed"
VARIABLES P, Q, zp, zq, done
vars == <<P, Q, zp, zq, done>>

(* ---------------- Weierstrass toy curve, a = -3 ---------------- *)
WP == 29
WB == 4
Inf == <<-1, -1>>
WInv(x) == CHOOSE y \in 0..(WP - 1) : (x * y) % WP = 1 % WP
WPoints == {Inf} \cup {pt \in (0..(WP - 1)) \X (0..(WP - 1)) :
                         (pt[2] * pt[2]) % WP = (pt[1] * pt[1] * pt[1] - 3 * pt[1] + WB) % WP}
WAddAff(A, Bp) ==
    IF A = Inf THEN Bp ELSE IF Bp = Inf THEN A
    ELSE IF A[1] = Bp[1] /\ (A[2] + Bp[2]) % WP = 0 THEN Inf
    ELSE LET lam == IF A = Bp THEN ((3 * A[1] * A[1] - 3) * WInv((2 * A[2]) % WP)) % WP
                    ELSE ((Bp[2] - A[2]) * WInv((Bp[1] - A[1]) % WP)) % WP
             x3 == (lam * lam - A[1] - Bp[1]) % WP
         IN <<x3, (lam * (A[1] - x3) - A[2]) % WP>>
\* projective representation (X : Y : Z) with scaling z; the neutral is (0 : z : 0)
WProj(A, z) == IF A = Inf THEN <<0, z, 0>> ELSE <<(A[1] * z) % WP, (A[2] * z) % WP, z>>
WRepr(R, A) ==      \* R = (X:Y:Z) is a valid representation of the affine point A
    IF A = Inf THEN R[3] = 0 /\ R[1] = 0 /\ R[2] # 0
    ELSE R[3] # 0 /\ R[1] = (A[1] * R[3]) % WP /\ R[2] = (A[2] * R[3]) % WP
\* p256.rs set_add (RCB 2016, algorithm 4)
RcbAdd(A, Bq) ==
    LET X1 == A[1]  Y1 == A[2]  Z1 == A[3]  X2 == Bq[1]  Y2 == Bq[2]  Z2 == Bq[3]
        x1x2 == (X1 * X2) % WP   y1y2 == (Y1 * Y2) % WP   z1z2 == (Z1 * Z2) % WP
        C == ((X1 + Y1) * (X2 + Y2) - x1x2 - y1y2) % WP
        D == ((Y1 + Z1) * (Y2 + Z2) - y1y2 - z1z2) % WP
        E == ((X1 + Z1) * (X2 + Z2) - x1x2 - z1z2) % WP
        F == (3 * (E - WB * z1z2)) % WP
        G == (y1y2 - F) % WP
        H == (y1y2 + F) % WP
        I == (3 * z1z2) % WP
        J == (3 * (WB * E - x1x2 - I)) % WP
        K == (3 * x1x2 - I) % WP
    IN <<(H * C - D * J) % WP, (H * G + K * J) % WP, (G * D + K * C) % WP>>
\* p256.rs set_double (dbl-2007-bl-2) with the fix-up for the neutral
BlDouble(A) ==
    LET X == A[1]  Y == A[2]  Z == A[3]
        s == (2 * Y * Z) % WP
        w == (3 * (X - Z) * (X + Z)) % WP
        R == (Y * s) % WP
        ss == (s * s) % WP
        RR == (R * R) % WP
        Bv == (2 * X * R) % WP
        h == (w * w - 2 * Bv) % WP
    IN <<(s * h) % WP, IF Z = 0 THEN 1 ELSE (w * (Bv - h) - 2 * RR) % WP, (s * ss) % WP>>

(* ---------------- twisted Edwards toy curve, a = -1 ---------------- *)
EP == 109
ED == 11
EInv(x) == CHOOSE y \in 0..(EP - 1) : (x * y) % EP = 1 % EP
EPoints == {pt \in (0..(EP - 1)) \X (0..(EP - 1)) :
              (pt[2] * pt[2] - pt[1] * pt[1]) % EP = (1 + ED * pt[1] * pt[1] * pt[2] * pt[2]) % EP}
EAddAff(A, Bp) ==
    LET t == (ED * A[1] * Bp[1] * A[2] * Bp[2]) % EP
    IN <<((A[1] * Bp[2] + A[2] * Bp[1]) * EInv((1 + t) % EP)) % EP,
         ((A[2] * Bp[2] + A[1] * Bp[1]) * EInv((1 - t) % EP)) % EP>>
\* extended coordinates (X : Y : Z : T), T = XY/Z
EProj(A, z) == <<(A[1] * z) % EP, (A[2] * z) % EP, z, (A[1] * A[2] * z) % EP>>
ERepr(R, A) == /\ R[3] # 0 /\ R[1] = (A[1] * R[3]) % EP /\ R[2] = (A[2] * R[3]) % EP
               /\ (R[4] * R[3]) % EP = (R[1] * R[2]) % EP
\* RFC 8032 5.1.4 addition (ed25519.rs set_add)
EdAdd(A, Bq) ==
    LET a == ((A[2] - A[1]) * (Bq[2] - Bq[1])) % EP
        b == ((A[2] + A[1]) * (Bq[2] + Bq[1])) % EP
        c == (A[4] * 2 * ED * Bq[4]) % EP
        d == (2 * A[3] * Bq[3]) % EP
        e == (b - a) % EP   f == (d - c) % EP   g == (d + c) % EP   h == (b + a) % EP
    IN <<(e * f) % EP, (g * h) % EP, (f * g) % EP, (e * h) % EP>>
\* RFC 8032 5.1.4 doubling (set_double): does not read T
EdDouble(A) ==
    LET a == (A[1] * A[1]) % EP   b == (A[2] * A[2]) % EP
        h == (a + b) % EP   e == (h - (A[1] + A[2]) * (A[1] + A[2])) % EP
        g == (a - b) % EP   f == (g + 2 * A[3] * A[3]) % EP
    IN <<(e * f) % EP, (g * h) % EP, (f * g) % EP, (e * h) % EP>>

(* ---------------- enumeration ---------------- *)
Pts == IF Family = "w" THEN WPoints ELSE EPoints
Init == P \in Pts /\ Q \in Pts /\ zp \in {1, 2, 5} /\ zq \in {1, 3, 7} /\ done = FALSE
Next == ~done /\ done' = TRUE /\ UNCHANGED <<P, Q, zp, zq>>
Spec == Init /\ [][Next]_vars

CurveSize == IF Family = "w" THEN Cardinality(WPoints) = 31 ELSE Cardinality(EPoints) = 104
AddOk == IF Family = "w" THEN WRepr(RcbAdd(WProj(P, zp), WProj(Q, zq)), WAddAff(P, Q))
         ELSE ERepr(EdAdd(EProj(P, zp), EProj(Q, zq)), EAddAff(P, Q))
DoubleOk == IF Family = "w" THEN WRepr(BlDouble(WProj(P, zp)), WAddAff(P, P))
            ELSE ERepr(EdDouble(EProj(P, zp)), EAddAff(P, P))
\* results are valid operands again: (P + Q) + Q through the formulas
ChainOk == IF Family = "w"
           THEN WRepr(RcbAdd(RcbAdd(WProj(P, zp), WProj(Q, zq)), WProj(Q, zq)), WAddAff(WAddAff(P, Q), Q))
           ELSE ERepr(EdAdd(EdAdd(EProj(P, zp), EProj(Q, zq)), EProj(Q, zq)), EAddAff(EAddAff(P, Q), Q))
=============================================================================
