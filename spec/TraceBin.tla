------------------------------ MODULE TraceBin ------------------------------
(***************************************************************************)
(* Trace specification of the binary-field register machine: GF(2^127)     *)
(* and GF(2^254) (binary-field part of C01, C05, C12, C20).  Registers     *)
(* hold GF(2^254) values <<x0, x1>>; a GF(2^127) value is <<x0, 0>>.       *)
(***************************************************************************)
EXTENDS Gls254, Integers, TLC, Json, IOUtils

Rec == ndJsonDeserialize(IOEnv.TRACE)
N == Len(Rec)
VARIABLES l, ty, regs
vars == <<l, ty, regs>>
NREG == 12
e == Rec[l]
Has(f) == f \in DOMAIN e
Is(op) == l <= N /\ e.op = op
Chk(ok) == IF ok THEN TRUE ELSE PrintT(<<"MISMATCH", l, e.op>>)
R(i) == regs[i]
Small == ty = "GFb127"
EncOf(v) == IF Small THEN B1Enc(v[1]) ELSE B2Enc(v)
Advance(newregs, ok) == Chk(ok) /\ l' = l + 1 /\ regs' = newregs /\ UNCHANGED ty
Put(v) == [regs EXCEPT ![e.dst] = v]
Write(v) == Advance(Put(v), Has("out") /\ e.out = EncOf(v))
Observe(ok) == Advance(regs, ok)
Status(b) == IF b THEN "ones" ELSE "zero"
\* an element of GF(2^127) embedded in GF(2^254)
Emb(c) == <<c, Zero>>

Init == l = 1 /\ ty = "GFb254" /\ regs = [i \in 0..(NREG - 1) |-> B2Zero]
DoInit == /\ Is("init") /\ Chk(e.ty \in {"GFb127", "GFb254"})
          /\ l' = l + 1 /\ ty' = e.ty /\ regs' = [i \in 0..(NREG - 1) |-> B2Zero]

\* raw constructors: any 128-bit pattern per half (z^127 folds)
DoRaw == Is("raw") /\ Write(IF Small THEN <<B1Red(FromBytesLE(e.b)), Zero>> ELSE B2Raw(e.b))
DoAdd == Is("add") /\ Write(B2Add(R(e.a), R(e.b)))
DoSub == Is("sub") /\ Write(B2Add(R(e.a), R(e.b)))
DoNeg == Is("neg") /\ Write(R(e.a))
DoMul == Is("mul") /\ Write(B2Mul(R(e.a), R(e.b)))
DoSquare == Is("square") /\ Write(B2Sq(R(e.a)))
DoXSquare == Is("xsquare") /\ Write(B2XSq(R(e.a), e.n))
DoDiv == Is("div") /\ Write(B2Mul(R(e.a), B2Inv(R(e.b))))
DoInvert == Is("invert") /\ Write(B2Inv(R(e.a)))
DoSqrt == Is("sqrt") /\ Write(IF Small THEN Emb(B1Sqrt(R(e.a)[1])) ELSE B2Sqrt(R(e.a)))
\* multiplication / division by the documented constants
DoMulSb == Is("mul_sb") /\ Write(B2Scale(R(e.a), Sb127))
DoMulB == Is("mul_b") /\ Write(B2Scale(R(e.a), Bb127))
DoDivZ == Is("div_z") /\ Write(B2Scale(R(e.a), B1Inv(Z1)))
DoDivZ2 == Is("div_z2") /\ Write(B2Scale(R(e.a), B1Inv(B1Sq(Z1))))
DoMulU == Is("mul_u") /\ Write(B2Mul(R(e.a), B2U))
DoMulU1 == Is("mul_u1") /\ Write(B2Mul(R(e.a), <<One, One>>))
\* a * phi(a) = norm to GF(2^127)
DoSelfPhi == Is("mul_selfphi") /\ Observe(Has("out") /\ e.out = B1Enc(B2Norm(R(e.a))))
DoTrace == Is("trace") /\ Observe(Has("res") /\ e.res = ToInt(IF Small THEN B1Tr(R(e.a)[1]) ELSE B2Tr(R(e.a))))
\* half-trace / quadratic solver: relational (either root is admissible)
DoHalfTrace ==
    /\ Is("halftrace")
    /\ IF Has("out") /\ B1DecOk(e.out)
       THEN LET h == FromBytesLE(e.out)  a == R(e.a)[1]
            IN Advance(Put(Emb(h)), B1Add(B1Sq(h), h) = B1Add(a, B1Tr(a)))
       ELSE Advance(regs, FALSE)
DoQSolve ==
    /\ Is("qsolve")
    /\ IF Has("out") /\ B2DecOk(e.out)
       THEN LET x == B2Dec(e.out)  a == R(e.a)
            IN Advance(Put(x), B2Add(B2Sq(x), x) = B2Add(a, B2Mul(B2U, Emb(B2Tr(a)))))
       ELSE Advance(regs, FALSE)
\* GFb127: add the low bit of val at bit index k (0..126)
DoXorBit == Is("xor_bit") /\ Write(LET v == Bit(FromBytesLE(e.val), 0)
                                   IN <<BitXor(R(e.a)[1], IF v = 1 THEN Pow2(e.k) ELSE Zero), Zero>>)
\* GFb254 = GF(2^127)[u]: components, construction from components, product by an element of GF(2^127)
DoToComponents == Is("to_components") /\ Observe(Has("c0") /\ e.c0 = B1Enc(R(e.a)[1]) /\ e.c1 = B1Enc(R(e.a)[2]))
DoFromB127 == Is("from_b127") /\ Write(<<B1Red(FromBytesLE(e.c0)), B1Red(FromBytesLE(e.c1))>>)
DoMulB127 == Is("mul_b127") /\ Write(B2Scale(R(e.a), B1Red(FromBytesLE(e.c))))
\* GFb127: write the low bit of val at bit index k
DoSetBit == Is("set_bit") /\ Write(LET v == Bit(FromBytesLE(e.val), 0)
                                       x == R(e.a)[1]
                                       cleared == IF Bit(x, e.k) = 1 THEN BitXor(x, Pow2(e.k)) ELSE x
                                   IN <<IF v = 1 THEN BitXor(cleared, Pow2(e.k)) ELSE cleared, Zero>>)
DoGetBit == Is("get_bit") /\ Observe(Has("res") /\ e.res = Bit(R(e.a)[1], e.k))
(* ---- codec and selection ---- *)
DoEncode == Is("encode") /\ Observe(Has("out") /\ e.out = EncOf(R(e.a)))
DoEquals == Is("equals") /\ Observe(Has("st") /\ e.st = Status(R(e.a) = R(e.b)))
DoIsZero == Is("iszero") /\ Observe(Has("st") /\ e.st = Status(R(e.a) = B2Zero))
DecOk(b) == IF Small THEN B1DecOk(b) ELSE B2DecOk(b)
DecVal(b) == IF ~DecOk(b) THEN B2Zero ELSE IF Small THEN Emb(FromBytesLE(b)) ELSE B2Dec(b)
DoDecodeCt == Is("decode_ct")
              /\ Advance(Put(DecVal(e["in"])), Has("st") /\ Has("out") /\ e.st = Status(DecOk(e["in"]))
                                               /\ e.out = EncOf(DecVal(e["in"])))
DoDecode == Is("decode")
            /\ IF DecOk(e["in"]) THEN Advance(Put(DecVal(e["in"])), Has("some") /\ e.some /\ Has("out") /\ e.out = e["in"])
               ELSE Advance(regs, Has("some") /\ ~e.some)
CtlOk == Has("ctl") /\ e.ctl \in {"ones", "zero"}
DoSetCond == Is("set_cond") /\ CtlOk /\ Write(IF e.ctl = "ones" THEN R(e.a) ELSE R(e.dst))
DoSelect == Is("select") /\ CtlOk /\ Write(IF e.ctl = "ones" THEN R(e.a1) ELSE R(e.a0))
DoCSwap == /\ Is("cswap") /\ CtlOk
           /\ LET x == IF e.ctl = "ones" THEN R(e.b) ELSE R(e.a)
                  y == IF e.ctl = "ones" THEN R(e.a) ELSE R(e.b)
              IN Advance([regs EXCEPT ![e.a] = x, ![e.b] = y],
                         Has("outa") /\ Has("outb") /\ e.outa = EncOf(x) /\ e.outb = EncOf(y))
\* table lookups: tab = registers rs (2*n entries), index j: entries 2j, 2j+1; the checked
\* variants return zeros for an out-of-range index
DoLookup ==
    /\ Is("lookup")
    /\ LET n == Len(e.rs) \div 2
           inr == Lt(FromBytesLE(e.j), FromInt(n))           \* the index is a full 32-bit value
           j == IF inr THEN ToInt(FromBytesLE(e.j)) ELSE 0
           want0 == IF inr THEN R(e.rs[2 * j + 1]) ELSE B2Zero
           want1 == IF inr THEN R(e.rs[2 * j + 2]) ELSE B2Zero
       IN Observe(Has("out0") /\ (inr \/ e.checked) /\ e.out0 = B2Enc(want0) /\ e.out1 = B2Enc(want1))

Next == \/ DoInit \/ DoRaw \/ DoAdd \/ DoSub \/ DoNeg \/ DoMul \/ DoSquare \/ DoXSquare \/ DoDiv \/ DoInvert \/ DoSqrt
        \/ DoMulSb \/ DoMulB \/ DoDivZ \/ DoDivZ2 \/ DoMulU \/ DoMulU1 \/ DoSelfPhi \/ DoTrace \/ DoHalfTrace \/ DoQSolve
        \/ DoGetBit \/ DoXorBit \/ DoSetBit \/ DoToComponents \/ DoFromB127 \/ DoMulB127 \/ DoEncode \/ DoEquals \/ DoIsZero \/ DoDecodeCt \/ DoDecode \/ DoSetCond \/ DoSelect \/ DoCSwap
        \/ DoLookup
Spec == Init /\ [][Next]_vars
Consumed == TLCGet("stats").diameter - 1
TraceDone == PrintT(<<"TRACE_CONSUMED", Consumed, N>>) /\ Consumed = N
=============================================================================
