---- MODULE AlgNaf_TTrace_1790982715 ----
EXTENDS Sequences, TLCExt, Toolbox, Naturals, TLC, AlgNaf

_expression ==
    LET AlgNaf_TEExpression == INSTANCE AlgNaf_TEExpression
    IN AlgNaf_TEExpression!expression
----

_trace ==
    LET AlgNaf_TETrace == INSTANCE AlgNaf_TETrace
    IN AlgNaf_TETrace!trace
----

_inv ==
    ~(
        TLCGet("level") = Len(_TETrace)
        /\
        sd = (<<-1>>)
        /\
        i = (1)
        /\
        y = (0)
        /\
        n = (4095)
    )
----

_init ==
    /\ sd = _TETrace[1].sd
    /\ i = _TETrace[1].i
    /\ n = _TETrace[1].n
    /\ y = _TETrace[1].y
----

_next ==
    /\ \E i,j \in DOMAIN _TETrace:
        /\ \/ /\ j = i + 1
              /\ i = TLCGet("level")
        /\ sd  = _TETrace[i].sd
        /\ sd' = _TETrace[j].sd
        /\ i  = _TETrace[i].i
        /\ i' = _TETrace[j].i
        /\ n  = _TETrace[i].n
        /\ n' = _TETrace[j].n
        /\ y  = _TETrace[i].y
        /\ y' = _TETrace[j].y

\* Uncomment the ASSUME below to write the states of the error trace
\* to the given file in Json format. Note that you can pass any tuple
\* to `JsonSerialize`. For example, a sub-sequence of _TETrace.
    \* ASSUME
    \*     LET J == INSTANCE Json
    \*         IN J!JsonSerialize("AlgNaf_TTrace_1790982715.json", _TETrace)

=============================================================================

 Note that you can extract this module `AlgNaf_TEExpression`
  to a dedicated file to reuse `expression` (the module in the 
  dedicated `AlgNaf_TEExpression.tla` file takes precedence 
  over the module `AlgNaf_TEExpression` below).

---- MODULE AlgNaf_TEExpression ----
EXTENDS Sequences, TLCExt, Toolbox, Naturals, TLC, AlgNaf

expression == 
    [
        \* To hide variables of the `AlgNaf` spec from the error trace,
        \* remove the variables below.  The trace will be written in the order
        \* of the fields of this record.
        sd |-> sd
        ,i |-> i
        ,n |-> n
        ,y |-> y
        
        \* Put additional constant-, state-, and action-level expressions here:
        \* ,_stateNumber |-> _TEPosition
        \* ,_sdUnchanged |-> sd = sd'
        
        \* Format the `sd` variable as Json value.
        \* ,_sdJson |->
        \*     LET J == INSTANCE Json
        \*     IN J!ToJson(sd)
        
        \* Lastly, you may build expressions over arbitrary sets of states by
        \* leveraging the _TETrace operator.  For example, this is how to
        \* count the number of times a spec variable changed up to the current
        \* state in the trace.
        \* ,_sdModCount |->
        \*     LET F[s \in DOMAIN _TETrace] ==
        \*         IF s = 1 THEN 0
        \*         ELSE IF _TETrace[s].sd # _TETrace[s-1].sd
        \*             THEN 1 + F[s-1] ELSE F[s-1]
        \*     IN F[_TEPosition - 1]
    ]

=============================================================================



Parsing and semantic processing can take forever if the trace below is long.
 In this case, it is advised to uncomment the module below to deserialize the
 trace from a generated binary file.

\*
\*---- MODULE AlgNaf_TETrace ----
\*EXTENDS IOUtils, TLC, AlgNaf
\*
\*trace == IODeserialize("AlgNaf_TTrace_1790982715.bin", TRUE)
\*
\*=============================================================================
\*

---- MODULE AlgNaf_TETrace ----
EXTENDS TLC, AlgNaf

trace == 
    <<
    ([sd |-> <<>>,i |-> 0,y |-> 4095,n |-> 4095]),
    ([sd |-> <<-1>>,i |-> 1,y |-> 0,n |-> 4095])
    >>
----


=============================================================================

---- CONFIG AlgNaf_TTrace_1790982715 ----
CONSTANTS
    Bits = 12
    HalveFirst = FALSE

INVARIANT
    _inv

CHECK_DEADLOCK
    \* CHECK_DEADLOCK off because of PROPERTY or INVARIANT above.
    FALSE

INIT
    _init

NEXT
    _next

CONSTANT
    _TETrace <- _trace

ALIAS
    _expression
=============================================================================
\* Generated on Fri Oct 02 23:11:57 UTC 2026