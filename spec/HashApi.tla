------------------------------- MODULE HashApi ------------------------------
(***************************************************************************)
(* The hashing API of crrl as a state machine over hash instances (C17).   *)
(*                                                                         *)
(* An instance is a record                                                 *)
(*   alg     algorithm name                                                *)
(*   msg     all bytes supplied since the last reset                       *)
(*   mode    "in" (absorbing), "out" (SHAKE after flip; `pos` bytes of the *)
(*           stream already extracted), "dead" (BLAKE2s after a            *)
(*           non-resetting finalize: only reset is allowed)                *)
(*   key, outlen   BLAKE2s parameters                                      *)
(* Digest(inst) is the standard's function of inst.msg -- it does not      *)
(* depend on how msg was split across update calls, which is the property. *)
(***************************************************************************)
EXTENDS SHA2, Keccak, Blake2s, Naturals, Sequences

Sha2Algs == {"sha224", "sha256", "sha384", "sha512", "sha512_224", "sha512_256"}
Sha3Algs == {"sha3_224", "sha3_256", "sha3_384", "sha3_512"}
ShakeAlgs == {"shake128", "shake256"}
BlakeAlgs == {"blake2s256", "blake2s", "keyedblake2s"}

\* skip: bytes counted but not processed (verification hook of the SHA-2 types; zero otherwise)
Fresh(alg, key, outlen) == [alg |-> alg, msg |-> <<>>, mode |-> "in", pos |-> 0,
                            key |-> key, outlen |-> outlen, skip |-> Zero]
Sha2W(alg) == IF alg \in {"sha224", "sha256"} THEN 32 ELSE 64
Sha2IV(alg) == CASE alg = "sha224" -> SHA_IV224 [] alg = "sha256" -> SHA_IV256 [] alg = "sha384" -> SHA_IV384
                 [] alg = "sha512" -> SHA_IV512 [] alg = "sha512_224" -> IV512_224 [] OTHER -> IV512_256
Sha2Out(alg) == CASE alg \in {"sha224", "sha512_224"} -> 28 [] alg \in {"sha256", "sha512_256"} -> 32 [] alg = "sha384" -> 48 [] OTHER -> 64

Digest(h) ==
    CASE h.alg \in Sha2Algs /\ h.skip # Zero -> ShaHashX(h.msg, Sha2IV(h.alg), Sha2W(h.alg), Sha2Out(h.alg), h.skip)
      [] h.alg = "sha224" -> SHA224(h.msg)
      [] h.alg = "sha256" -> SHA256(h.msg)
      [] h.alg = "sha384" -> SHA384(h.msg)
      [] h.alg = "sha512" -> SHA512(h.msg)
      [] h.alg = "sha512_224" -> SHA512_224(h.msg)
      [] h.alg = "sha512_256" -> SHA512_256(h.msg)
      [] h.alg = "sha3_224" -> SHA3_224(h.msg)
      [] h.alg = "sha3_256" -> SHA3_256(h.msg)
      [] h.alg = "sha3_384" -> SHA3_384(h.msg)
      [] h.alg = "sha3_512" -> SHA3_512(h.msg)
      [] h.alg \in BlakeAlgs /\ h.skip # <<>> -> Blake2sX(h.msg, h.key, h.outlen, h.skip)
      [] h.alg \in BlakeAlgs -> Blake2s(h.msg, h.key, h.outlen)

\* bytes pos+1 .. pos+n of the SHAKE output stream of h.msg
Stream(h, n) ==
    LET s == IF h.alg = "shake128" THEN SHAKE128(h.msg, h.pos + n) ELSE SHAKE256(h.msg, h.pos + n)
    IN SubSeq(s, h.pos + 1, h.pos + n)

Update(h, data) == [h EXCEPT !.msg = h.msg \o data]
Reset(h) == [h EXCEPT !.msg = <<>>, !.mode = "in", !.pos = 0, !.skip = Zero]
\* the hook advances the count of processed bytes by whole blocks
\* (SHA-2: skip is the total advance, a BigNat; BLAKE2s: the counter enters every compression, so skip is the sequence of
\* <<position, advance>> pairs, position counting the key block)
DataLen(h) == Len(h.msg) + (IF Len(h.key) > 0 THEN 64 ELSE 0)
Skip(h, nblocks) == IF h.alg \in BlakeAlgs THEN [h EXCEPT !.skip = Append(h.skip, <<DataLen(h), Mul(nblocks, FromInt(64))>>)]
                    ELSE [h EXCEPT !.skip = Add(h.skip, Mul(nblocks, FromInt(2 * Sha2W(h.alg))))]
\* the BLAKE2s hook refuses (and the harness logs nothing) while nothing has been absorbed
CanSkip(h) == h.alg \in Sha2Algs \/ (h.alg \in BlakeAlgs /\ DataLen(h) > 0)
\* which finalization calls leave the instance reset
Resets(alg, call) == alg \notin BlakeAlgs \/ call \in {"finalize_reset", "finalize_reset_write", "digest"}
AfterFinalize(h, call) == IF Resets(h.alg, call) THEN Reset(h) ELSE [h EXCEPT !.mode = "dead"]
Flip(h) == [h EXCEPT !.mode = "out", !.pos = 0]
AfterExtract(h, n) == [h EXCEPT !.pos = h.pos + n]
=============================================================================
