-------------------------------- MODULE AlgNaf ------------------------------
(***************************************************************************)
(* Model of the width-5 NAF recoding of an unsigned integer held in a      *)
(* fixed-size register (recode_u128_NAF in jq255e.rs / jq255s.rs), scaled  *)
(* from 128 to Bits bits.  One loop iteration is one action.  For EVERY    *)
(* input n < 2^Bits: the digits are 0 or odd in -15..15, non-zero digits   *)
(* are at least 5 positions apart, and sum(d_i 2^i) = n.                   *)
(* HalveFirst = TRUE is the repaired update y <- (y - v)/2 + c/2;          *)
(* HalveFirst = FALSE is the original y <- (y - v + c) mod 2^Bits / 2,     *)
(* which loses the carry for the eight largest odd inputs.                 *)
(***************************************************************************)
EXTENDS Integers, Sequences, TLC

CONSTANTS Bits, HalveFirst
VARIABLES n, y, i, sd
vars == <<n, y, i, sd>>
Reg == 2 ^ Bits

Init == n \in 0..(Reg - 1) /\ y = n /\ i = 0 /\ sd = <<>>
Step == /\ i <= Bits
        /\ LET v == IF y % 2 = 1 THEN y % 32 ELSE 0        \* low 5 bits if odd
               c == IF v >= 16 THEN 32 ELSE 0               \* carry
           IN /\ sd' = Append(sd, v - c)
              /\ y' = IF HalveFirst THEN (y - v) \div 2 + c \div 2
                      ELSE ((y - v + c) % Reg) \div 2
        /\ i' = i + 1 /\ UNCHANGED n
Spec == Init /\ [][Step]_vars

RECURSIVE Sum(_, _)
Sum(s, k) == IF k > Len(s) THEN 0 ELSE s[k] * 2 ^ (k - 1) + Sum(s, k + 1)
DigitsOk == \A k \in 1..Len(sd) : sd[k] = 0 \/ (sd[k] % 2 = 1 /\ sd[k] >= -15 /\ sd[k] <= 15)
Sparse == \A k \in 1..Len(sd) : sd[k] # 0 => \A j \in (k + 1)..(k + 4) : j > Len(sd) \/ sd[j] = 0
\* partial-sum invariant: digits so far plus the remaining register value reconstruct n
Inductive == Sum(sd, 1) + y * 2 ^ i = n
NoOverflow == y < Reg
Complete == i = Bits + 1 => (y = 0 /\ Sum(sd, 1) = n)
=============================================================================
