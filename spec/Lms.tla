--------------------------------- MODULE Lms --------------------------------
(***************************************************************************)
(* LMS (RFC 8554, and the SP 800-208 parameter sets) as crrl exposes it:   *)
(*                                                                         *)
(* 1. The private-key state machine (C16): a key is a leaf counter q and   *)
(*    the set of signatures it has issued.  Signing is two steps,          *)
(*    Advance (q' = q + 1, inside the call) then Emit; the random-number   *)
(*    generator may fail between them (Crash): the leaf stays consumed.    *)
(*    When q = 2^h signing returns nothing and the state is unchanged.     *)
(* 2. RFC 8554 Algorithm 6a (candidate root from a signature) and the      *)
(*    Appendix A pseudo-random OTS key derivation, over SHA-256 / SHAKE256 *)
(*    from SHA2.tla / Keccak.tla, used to recompute signatures in TLC.     *)
(***************************************************************************)
EXTENDS SHA2, Keccak, Naturals, Sequences

\* parameter sets: n = m, w = 8, h = 5
LmsSets ==
  [ sha256_m32 |-> [n |-> 32, p |-> 34, shake |-> FALSE, lmstype |-> 5, otstype |-> 4],
    sha256_m24 |-> [n |-> 24, p |-> 26, shake |-> FALSE, lmstype |-> 10, otstype |-> 8],
    shake_m32  |-> [n |-> 32, p |-> 34, shake |-> TRUE, lmstype |-> 15, otstype |-> 12],
    shake_m24  |-> [n |-> 24, p |-> 26, shake |-> TRUE, lmstype |-> 20, otstype |-> 16] ]
TreeH == 5
NLeaves == 32
OtsSigLen(S) == 4 + S.n + S.n * S.p
SigLen(S) == 4 + OtsSigLen(S) + 4 + TreeH * S.n

U32(x) == <<x \div 16777216, (x \div 65536) % 256, (x \div 256) % 256, x % 256>>
U16(x) == <<x \div 256, x % 256>>
FromU32(b) == ((b[1] * 256 + b[2]) * 256 + b[3]) * 256 + b[4]

(* -------------------- structure of a signature (cheap) ------------------ *)
SigQ(sig) == FromU32(SubSeq(sig, 1, 4))
WellFormed(S, sig, q) ==
    /\ Len(sig) = SigLen(S)
    /\ SubSeq(sig, 1, 4) = U32(q)
    /\ SubSeq(sig, 5, 8) = U32(S.otstype)
    /\ SubSeq(sig, 4 + OtsSigLen(S) + 1, 4 + OtsSigLen(S) + 4) = U32(S.lmstype)

(* --------------------------- RFC 8554 hashing --------------------------- *)
Hh(S, msg) == IF S.shake THEN SHAKE256(msg, S.n) ELSE SubSeq(SHA256(msg), 1, S.n)
DPBLC == <<128, 128>>
DMESG == <<129, 129>>
DLEAF == <<130, 130>>
DINTR == <<131, 131>>
\* Winternitz chain from step a up to (exclusive) step b on element i
RECURSIVE Chain(_, _, _, _, _, _, _)
Chain(S, I, q, i, tmp, a, b) ==
    IF a >= b THEN tmp
    ELSE Chain(S, I, q, i, Hh(S, I \o U32(q) \o U16(i) \o <<a>> \o tmp), a + 1, b)
\* checksum (w = 8, ls = 0): sum of (255 - byte)
RECURSIVE Cksm(_, _)
Cksm(Q, k) == IF k > Len(Q) THEN 0 ELSE (255 - Q[k]) + Cksm(Q, k + 1)
\* Algorithm 4b: candidate OTS public key
OtsCandidate(S, I, q, ots, msg) ==
    LET C == SubSeq(ots, 5, 4 + S.n)
        Q == Hh(S, I \o U32(q) \o DMESG \o C \o msg)
        Qck == Q \o U16(Cksm(Q, 1))
        y(i) == SubSeq(ots, 4 + S.n * (i + 1) + 1, 4 + S.n * (i + 2))      \* i = 0..p-1
        RECURSIVE Zs(_)
        Zs(i) == IF i = S.p THEN <<>> ELSE Chain(S, I, q, i, y(i), Qck[i + 1], 255) \o Zs(i + 1)
    IN Hh(S, I \o U32(q) \o DPBLC \o Zs(0))
\* Algorithm 6a: candidate root
RECURSIVE Climb(_, _, _, _, _, _)
Climb(S, I, path, r, tmp, i) ==
    IF i = TreeH THEN tmp
    ELSE LET node == SubSeq(path, i * S.n + 1, (i + 1) * S.n)
             up == r \div 2
         IN Climb(S, I, path, up,
                  IF r % 2 = 1 THEN Hh(S, I \o U32(up) \o DINTR \o node \o tmp)
                  ELSE Hh(S, I \o U32(up) \o DINTR \o tmp \o node), i + 1)
CandidateRoot(S, I, sig, msg) ==
    LET q == SigQ(sig)
        ots == SubSeq(sig, 5, 4 + OtsSigLen(S))
        Kc == OtsCandidate(S, I, q, ots, msg)
        r == NLeaves + q
        leaf == Hh(S, I \o U32(r) \o DLEAF \o Kc)
        path == SubSeq(sig, 4 + OtsSigLen(S) + 4 + 1, SigLen(S))
    IN Climb(S, I, path, r, leaf, 0)
\* Appendix A: x_q[i] = H(I || q || i || 0xff || SEED); the signature element
\* for coefficient a is chain^a(x)
SigElement(S, I, seed, q, i, a) ==
    Chain(S, I, q, i, Hh(S, I \o U32(q) \o U16(i) \o <<255>> \o seed), 0, a)
=============================================================================
