----------------------------- MODULE AlgBatchInv -----------------------------
(***************************************************************************)
(* Design-level model of batch_invert (Montgomery's trick with the "zero   *)
(* inverts to zero" convention), as written in modint.rs / gf255 / gf448 / *)
(* gfsecp256k1: per batch of at most B elements                            *)
(*   forward :  t[0] = x[0] or 1 if zero;  t[j] = (x[j] or 1) * t[j-1]     *)
(*   k = 1 / t[blen-1]                                                     *)
(*   backward:  for j = blen-1 .. 1: x[j] <- k * t[j-1] unless x[j] = 0;   *)
(*              k <- k * (x[j] or 1)                                       *)
(*   x[0] <- k unless x[0] = 0                                             *)
(* Over GF(P) with a small P TLC enumerates EVERY input slice up to length *)
(* NMax -- every placement of zeros, including position 0 of the first and *)
(* of a later batch, all-zero batches, slices ending a batch exactly --    *)
(* and checks each output against 1/x (0 for 0).  The variants drop one of *)
(* the zero substitutions and must fail.                                   *)
(***************************************************************************)
EXTENDS Integers, Sequences, TLC

CONSTANTS P, B, NMax,
          NoFirstFix,     \* TRUE: t[0] is not replaced by 1 when x[0] = 0     (seeded change C18-c)
          NoBackFix       \* TRUE: the backward pass multiplies k by x[j] even when it is zero

Inv(x) == IF x % P = 0 THEN 0 ELSE CHOOSE y \in 1..(P - 1) : (x * y) % P = 1
OrOne(x) == IF x = 0 THEN 1 ELSE x

VARIABLES xs, done
vars == <<xs, done>>

\* one batch: s is the slice (1-based), result is the inverted slice
RECURSIVE Fwd(_, _, _)
Fwd(s, j, acc) ==      \* acc = <<t[1..j-1]>>
    IF j > Len(s) THEN acc
    ELSE LET v == IF j = 1 THEN (IF NoFirstFix THEN s[1] ELSE OrOne(s[1]))
                   ELSE (OrOne(s[j]) * acc[j - 1]) % P
         IN Fwd(s, j + 1, Append(acc, v))
RECURSIVE Bwd(_, _, _, _, _)
Bwd(s, t, j, k, out) ==    \* processes positions j .. 2, then position 1
    IF j = 1 THEN [out EXCEPT ![1] = IF s[1] = 0 THEN 0 ELSE k]
    ELSE LET o == IF s[j] = 0 THEN 0 ELSE (k * t[j - 1]) % P
             k2 == (k * (IF NoBackFix THEN s[j] ELSE OrOne(s[j]))) % P
         IN Bwd(s, t, j - 1, k2, [out EXCEPT ![j] = o])
Batch(s) == LET t == Fwd(s, 1, <<>>) IN Bwd(s, t, Len(s), Inv(t[Len(s)]), s)
RECURSIVE BatchInvert(_)
BatchInvert(s) == IF Len(s) = 0 THEN <<>>
                  ELSE LET bl == IF Len(s) > B THEN B ELSE Len(s)
                       IN Batch(SubSeq(s, 1, bl)) \o BatchInvert(SubSeq(s, bl + 1, Len(s)))

Slices == UNION {[1..n -> 0..(P - 1)] : n \in 0..NMax}
Init == xs \in Slices /\ done = FALSE
Next == ~done /\ done' = TRUE /\ UNCHANGED xs
Spec == Init /\ [][Next]_vars

Correct == LET r == BatchInvert(xs) IN Len(r) = Len(xs) /\ \A i \in 1..Len(xs) : r[i] = Inv(xs[i])
=============================================================================
