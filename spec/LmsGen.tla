-------------------------------- MODULE LmsGen ------------------------------
(***************************************************************************)
(* Design model of the LMS key counter and generator of sign-call          *)
(* histories.  A sign call is Advance then Emit; the RNG may crash in      *)
(* between (the caller sees a panic, the leaf is consumed).  TLC checks    *)
(* the one-time-key invariants on every interleaving and prints each       *)
(* maximal history as a script (which calls crash) to be replayed into     *)
(* the real code.                                                          *)
(***************************************************************************)
EXTENDS Naturals, Sequences, FiniteSets, TLC, Json

CONSTANTS H,          \* tree height: 2^H leaves
          MaxCrash,   \* number of RNG failures injected in one history
          Extra       \* sign calls attempted after exhaustion

VARIABLES q,          \* next unused leaf (the key state)
          pc,         \* "idle" or "advanced" (inside a sign call, between the two steps)
          emitted,    \* sequence of leaf indices of returned signatures
          consumed,   \* set of leaves whose one-time key may have been used
          crashes, calls, hist

vars == <<q, pc, emitted, consumed, crashes, calls, hist>>
Leaves == 2 ^ H
Total == Leaves + Extra

Init == q = 0 /\ pc = "idle" /\ emitted = <<>> /\ consumed = {} /\ crashes = 0 /\ calls = 0 /\ hist = <<>>

\* sign call, first half: the state is advanced before anything else happens
Advance == /\ pc = "idle" /\ calls < Total /\ q < Leaves
           /\ q' = q + 1 /\ pc' = "advanced" /\ consumed' = consumed \cup {q}
           /\ UNCHANGED <<emitted, crashes, calls, hist>>
\* second half: the signature for leaf q-1 is returned
Emit == /\ pc = "advanced"
        /\ emitted' = Append(emitted, q - 1) /\ pc' = "idle" /\ calls' = calls + 1
        /\ hist' = Append(hist, "ok")
        /\ UNCHANGED <<q, consumed, crashes>>
\* the RNG fails after the state change: no signature, leaf consumed
Crash == /\ pc = "advanced" /\ crashes < MaxCrash
         /\ pc' = "idle" /\ crashes' = crashes + 1 /\ calls' = calls + 1
         /\ hist' = Append(hist, "crash")
         /\ UNCHANGED <<q, emitted, consumed>>
\* exhausted key: nothing returned, nothing changes
Exhausted == /\ pc = "idle" /\ calls < Total /\ q = Leaves
             /\ calls' = calls + 1 /\ hist' = Append(hist, "none")
             /\ UNCHANGED <<q, pc, emitted, consumed, crashes>>
Next == Advance \/ Emit \/ Crash \/ Exhausted
Spec == Init /\ [][Next]_vars /\ WF_vars(Next)

(* ------------------------------ properties ------------------------------ *)
StrictlyIncreasing == \A i \in 1..(Len(emitted) - 1) : emitted[i] < emitted[i + 1]
NoReuse == Cardinality({emitted[i] : i \in 1..Len(emitted)}) = Len(emitted)
\* whenever a signature for leaf j can have been observed, the state is already past j
AdvancedBeforeVisible == \A i \in 1..Len(emitted) : emitted[i] < q
ConsumedIsPrefix == consumed = 0..(q - 1)
InRange == q <= Leaves /\ \A i \in 1..Len(emitted) : emitted[i] < Leaves
Done == calls = Total /\ pc = "idle"
Emit1 == Done => PrintT(<<"SCRIPT", ToJson(hist)>>)
Terminates == <>Done
=============================================================================
