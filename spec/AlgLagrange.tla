----------------------------- MODULE AlgLagrange ----------------------------
(***************************************************************************)
(* Algorithm-level model of the lattice reduction behind split_vartime     *)
(* (src/backend/w64/lagrange.rs, define_lagrange): Lagrange's algorithm on *)
(* the basis [(n, 0), (k, 1)] driven by bit lengths, in two loops -- the   *)
(* first until |u|^2 fits the intermediate type (2^L2), the second with    *)
(* "stuck" detection -- scaled down to a 14-bit modulus.  One loop         *)
(* iteration is one action.                                                *)
(*                                                                         *)
(* Checked for EVERY scalar k of each modulus: the vectors stay in the     *)
(* lattice, the tracked norms and scalar product are exact, the returned   *)
(* vector is non-zero and either below the target length or a shortest     *)
(* vector, and -- termination -- the loop count stays below a bound.       *)
(* With FixFirstLoop = FALSE the model is the code before commit 22875ff:  *)
(* TLC then finds the scalars on which the first loop never exits.         *)
(***************************************************************************)
EXTENDS Integers, TLC

CONSTANTS Moduli,        \* set of odd moduli n
          L2,            \* the first loop runs until |u|^2 < 2^L2
          MaxBitLen,     \* target: return v as soon as |v|^2 has at most this many bits
          MaxSteps,      \* termination bound checked as an invariant
          FixFirstLoop   \* stuck detection also in the first loop (the repaired code)

VARIABLES n, k, u0, u1, v0, v1, nu, nv, sp, phase, lastBl, stuck, steps
vars == <<n, k, u0, u1, v0, v1, nu, nv, sp, phase, lastBl, stuck, steps>>

Abs(x) == IF x < 0 THEN 0 - x ELSE x
RECURSIVE BL(_)
BL(x) == IF x = 0 THEN 0 ELSE 1 + BL(x \div 2)          \* bit length of a non-negative integer
RECURSIVE P2(_)
P2(s) == IF s = 0 THEN 1 ELSE 2 * P2(s - 1)
Max0(x) == IF x < 0 THEN 0 ELSE x

Init == /\ n \in Moduli /\ k \in 0..(n - 1)
        /\ u0 = n /\ u1 = 0 /\ v0 = k /\ v1 = 1
        /\ nu = n * n /\ nv = k * k + 1 /\ sp = n * k
        /\ phase = 1 /\ lastBl = BL(n * k) /\ stuck = 0 /\ steps = 0

\* the reduction step u <- u -/+ 2^s v, with the norm and scalar-product updates of the code
Reduce(a0, a1, b0, b1, na, nb, s_p) ==
    LET s == Max0(BL(Abs(s_p)) - BL(nb))
        t == P2(s)
    IN IF s_p >= 0
       THEN <<a0 - t * b0, a1 - t * b1, na + t * t * nb - 2 * t * s_p, s_p - t * nb>>
       ELSE <<a0 + t * b0, a1 + t * b1, na + t * t * nb + 2 * t * s_p, s_p + t * nb>>

Step ==
    /\ phase \in {1, 2}
    /\ LET sw == nu < nv                       \* if u is smaller than v, swap them
           a0 == IF sw THEN v0 ELSE u0   a1 == IF sw THEN v1 ELSE u1
           b0 == IF sw THEN u0 ELSE v0   b1 == IF sw THEN u1 ELSE v1
           na == IF sw THEN nv ELSE nu   nb == IF sw THEN nu ELSE nv
           bl == BL(Abs(sp))
           isStuck == bl >= lastBl
           stuckNow == isStuck /\ (bl > lastBl \/ stuck + 1 > 3)
           detect == phase = 2 \/ FixFirstLoop
       IN IF phase = 1 /\ na < P2(L2)
          THEN \* norms fit the shorter type: switch to the second loop (state otherwise unchanged)
               /\ phase' = 2 /\ lastBl' = bl /\ stuck' = 0
               /\ u0' = a0 /\ u1' = a1 /\ v0' = b0 /\ v1' = b1 /\ nu' = na /\ nv' = nb
               /\ UNCHANGED <<n, k, sp>> /\ steps' = steps + 1
          ELSE IF BL(nb) <= MaxBitLen \/ (detect /\ stuckNow)
          THEN \* return v
               /\ phase' = 3
               /\ u0' = a0 /\ u1' = a1 /\ v0' = b0 /\ v1' = b1 /\ nu' = na /\ nv' = nb
               /\ UNCHANGED <<n, k, sp, lastBl, stuck>> /\ steps' = steps + 1
          ELSE LET r == Reduce(a0, a1, b0, b1, na, nb, sp)
               IN /\ u0' = r[1] /\ u1' = r[2] /\ nu' = r[3] /\ sp' = r[4]
                  /\ v0' = b0 /\ v1' = b1 /\ nv' = nb
                  /\ lastBl' = IF detect /\ ~isStuck THEN bl ELSE lastBl
                  /\ stuck' = IF detect THEN (IF isStuck THEN stuck + 1 ELSE 0) ELSE stuck
                  /\ UNCHANGED <<n, k, phase>> /\ steps' = steps + 1
Next == Step
Spec == Init /\ [][Next]_vars /\ WF_vars(Next)

(* ------------------------------ properties ------------------------------ *)
InLattice == (u0 - k * u1) % n = 0 /\ (v0 - k * v1) % n = 0
NormsExact == nu = u0 * u0 + u1 * u1 /\ nv = v0 * v0 + v1 * v1 /\ sp = u0 * v0 + u1 * v1
Bounded == steps <= MaxSteps
\* on return: v is a non-zero lattice vector, below the target or part of a reduced basis
\* (2|<u,v>| <= |v|^2 <= |u|^2), in which case it is a shortest vector
ResultOk == phase = 3 =>
              /\ (v0 # 0 \/ v1 # 0)
              /\ (BL(nv) <= MaxBitLen \/ (nv <= nu /\ 2 * Abs(sp) <= nu))
Terminates == <>(phase = 3)
=============================================================================
