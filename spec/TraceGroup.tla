----------------------------- MODULE TraceGroup -----------------------------
(***************************************************************************)
(* Trace specification of the group register machine (C03, C04, C06, C10,  *)
(* and the point part of C20).  Registers hold abstract group elements;    *)
(* every register-writing call logs the canonical encoding of its result,  *)
(* which must be the encoding of the element the group law gives.          *)
(***************************************************************************)
EXTENDS Groups, TLC, Json, IOUtils

Rec == ndJsonDeserialize(IOEnv.TRACE)
N == Len(Rec)

VARIABLES l, grp, regs
vars == <<l, grp, regs>>
NREG == 12

e == Rec[l]
Has(f) == f \in DOMAIN e
Is(op) == l <= N /\ e.op = op
Chk(ok) == IF ok THEN TRUE ELSE PrintT(<<"MISMATCH", l, e.op>>)
R(i) == regs[i]
Status(b) == IF b THEN "ones" ELSE "zero"
Advance(newregs, ok) == Chk(ok) /\ l' = l + 1 /\ regs' = newregs /\ UNCHANGED grp
Put(P) == [regs EXCEPT ![e.dst] = P]
Write(P) == Advance(Put(P), Has("out") /\ e.out = GEncode(grp, P))
Observe(ok) == Advance(regs, ok)
\* scalars are logged as byte strings and reduced modulo the scalar order
Sc(b) == Mod(FromBytesLE(b), ScalarOrder(grp))

Init == l = 1 /\ grp = "ed25519" /\ regs = [i \in 0..(NREG - 1) |-> <<Zero, One>>]
DoInit == /\ Is("init") /\ Chk(e.grp \in GroupNames)
          /\ l' = l + 1 /\ grp' = e.grp
          /\ regs' = [i \in 0..(NREG - 1) |-> GNeutral(e.grp)]

DoConst == Is("const") /\ Write(IF e.name = "BASE" THEN GBase(grp) ELSE GNeutral(grp))
\* decoding (C06): acceptance and value
DoDecode ==
    /\ Is("decode")
    /\ LET d == GDecode(grp, e["in"])
       IN IF d[1] THEN Advance(Put(d[2]), Has("some") /\ e.some = TRUE /\ Has("out") /\ e.out = GEncode(grp, d[2]))
          ELSE Advance(regs, Has("some") /\ e.some = FALSE)
(* ---- group law (C03) ---- *)
DoAdd == Is("add") /\ Write(GAdd(grp, R(e.a), R(e.b)))
DoSub == Is("sub") /\ Write(GAdd(grp, R(e.a), GNeg(grp, R(e.b))))
DoNeg == Is("neg") /\ Write(GNeg(grp, R(e.a)))
DoDouble == Is("double") /\ Write(GAdd(grp, R(e.a), R(e.a)))
RECURSIVE GXDbl(_, _)
GXDbl(P, n) == IF n = 0 THEN P ELSE GXDbl(GAdd(grp, P, P), n - 1)
DoXDouble == Is("xdouble") /\ Write(GXDbl(R(e.a), e.n))
DoMulSmall == Is("mul_small") /\ Write(GMul(grp, FromBytesLE(e.k), R(e.a)))
(* ---- scalar multiplication (C04) and two-scalar combinations (C10) ---- *)
DoMul == Is("mul") /\ Write(GMul(grp, Sc(e.k), R(e.a)))
DoMulGen == Is("mulgen") /\ Write(GMul(grp, Sc(e.k), GBase(grp)))
DoMulAddMulGen == Is("mul_add_mulgen_vartime")
                  /\ Write(GAdd(grp, GMul(grp, Sc(e.u), R(e.a)), GMul(grp, Sc(e.v), GBase(grp))))
DoMul128 == Is("mul128_add_mulgen_vartime")
            /\ Write(GAdd(grp, GMul(grp, FromBytesLE(e.u), R(e.a)), GMul(grp, Sc(e.v), GBase(grp))))
\* s*G = R + k*Q, up to the cofactor on the Edwards curves (8*s*B = 8*R + 8*k*A)
Cof(P) == CASE grp = "ed25519" -> PXDbl(Ed25519, P, 3) [] grp = "ed448" -> PXDbl(Ed448, P, 2) [] OTHER -> P
\* GLS254: u0*P + u1*mu*P + v*G for two 64-bit integers u0, u1
DoMul64Mu == Is("mul64mu_add_mulgen_vartime")
             /\ LET k == ModAdd(FromBytesLE(e.u0), ModMul(FromBytesLE(e.u1), GlsMu, RGLS254), RGLS254)
                IN Write(GAdd(grp, GMul(grp, k, R(e.a)), GMul(grp, Sc(e.v), GBase(grp))))
DoVerifyHelper ==
    /\ Is("verify_helper")
    /\ LET lhs == GMul(grp, Sc(e.s), GBase(grp))
           rhs == GAdd(grp, R(e.b), GMul(grp, Sc(e.k), R(e.a)))
       IN Observe(Has("res") /\ e.res = GEq(grp, Cof(lhs), Cof(rhs)))
(* ---- observations (C06, C20) ---- *)
DoEncode == Is("encode")
            /\ Observe(/\ Has("out") /\ e.out = GEncode(grp, R(e.a))
                       /\ (Has("outc") => e.outc = GEncodeC(grp, R(e.a))))
DoOneWayMap == Is("one_way_map") /\ Write(GMap(grp, e["in"]))
DoEquals == Is("equals") /\ Observe(Has("st") /\ e.st = Status(GEq(grp, R(e.a), R(e.b))))
DoIsNeutral == Is("isneutral") /\ Observe(Has("st") /\ e.st = Status(GEq(grp, R(e.a), GNeutral(grp))))
CtlOk == Has("ctl") /\ e.ctl \in {"ones", "zero"}
DoSetCond == Is("set_cond") /\ CtlOk /\ Write(IF e.ctl = "ones" THEN R(e.a) ELSE R(e.dst))
DoSelect == Is("select") /\ CtlOk /\ Write(IF e.ctl = "ones" THEN R(e.a1) ELSE R(e.a0))
DoCondNeg == Is("set_condneg") /\ CtlOk /\ Write(IF e.ctl = "ones" THEN GNeg(grp, R(e.a)) ELSE R(e.a))

Next == \/ DoInit \/ DoConst \/ DoDecode
        \/ DoAdd \/ DoSub \/ DoNeg \/ DoDouble \/ DoXDouble \/ DoMulSmall
        \/ DoMul \/ DoMulGen \/ DoMulAddMulGen \/ DoMul128 \/ DoMul64Mu \/ DoVerifyHelper
        \/ DoOneWayMap \/ DoEncode \/ DoEquals \/ DoIsNeutral \/ DoSetCond \/ DoSelect \/ DoCondNeg
Spec == Init /\ [][Next]_vars
Consumed == TLCGet("stats").diameter - 1
TraceDone == PrintT(<<"TRACE_CONSUMED", Consumed, N>>) /\ Consumed = N
=============================================================================
