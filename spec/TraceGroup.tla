----------------------------- MODULE TraceGroup -----------------------------
(***************************************************************************)
(* Trace specification of the group register machine (C03, C04, C06, C10,  *)
(* and the point part of C20).  Registers hold abstract group elements;    *)
(* every register-writing call logs the canonical encoding of its result,  *)
(* which must be the encoding of the element the group law gives.          *)
(***************************************************************************)
EXTENDS Groups, TLC, Json, IOUtils

Rec == ndJsonDeserialize(IOEnv.TRACE)
N == Len(Rec)

VARIABLES l, grp, regs
vars == <<l, grp, regs>>
NREG == 12

e == Rec[l]
Has(f) == f \in DOMAIN e
Is(op) == l <= N /\ e.op = op
Chk(ok) == IF ok THEN TRUE ELSE PrintT(<<"MISMATCH", l, e.op>>)
R(i) == regs[i]
Status(b) == IF b THEN "ones" ELSE "zero"
Advance(newregs, ok) == Chk(ok) /\ l' = l + 1 /\ regs' = newregs /\ UNCHANGED grp
Put(P) == [regs EXCEPT ![e.dst] = P]
\* every register write logs the encoding of the result (and the compressed SEC1 form where there is one)
EncOk(P) == Has("out") /\ e.out = GEncode(grp, P) /\ (Has("outc") => e.outc = GEncodeC(grp, P))
Write(P) == Advance(Put(P), EncOk(P))
Observe(ok) == Advance(regs, ok)
\* scalars are logged as byte strings and reduced modulo the scalar order
Sc(b) == Mod(FromBytesLE(b), ScalarOrder(grp))

Init == l = 1 /\ grp = "ed25519" /\ regs = [i \in 0..(NREG - 1) |-> <<Zero, One>>]
DoInit == /\ Is("init") /\ Chk(e.grp \in GroupNames)
          /\ l' = l + 1 /\ grp' = e.grp
          /\ regs' = [i \in 0..(NREG - 1) |-> GNeutral(e.grp)]

DoConst == Is("const") /\ Write(IF e.name = "BASE" THEN GBase(grp) ELSE GNeutral(grp))
\* decoding (C06): acceptance and value
DoDecode ==
    /\ Is("decode")
    /\ LET d == GDecode(grp, e["in"])
           stOk == Has("st") => e.st = Status(d[1])       \* status word of set_decode: all-ones iff accepted
       IN IF d[1] THEN Advance(Put(d[2]), Has("some") /\ e.some = TRUE /\ EncOk(d[2]) /\ stOk)
          ELSE Advance(regs, Has("some") /\ e.some = FALSE /\ stOk)
(* ---- group law (C03) ---- *)
DoAdd == Is("add") /\ Write(GAdd(grp, R(e.a), R(e.b)))
DoSub == Is("sub") /\ Write(GAdd(grp, R(e.a), GNeg(grp, R(e.b))))
DoNeg == Is("neg") /\ Write(GNeg(grp, R(e.a)))
DoDouble == Is("double") /\ Write(GAdd(grp, R(e.a), R(e.a)))
RECURSIVE GXDbl(_, _)
GXDbl(P, n) == IF n = 0 THEN P ELSE GXDbl(GAdd(grp, P, P), n - 1)
DoXDouble == Is("xdouble") /\ Write(GXDbl(R(e.a), e.n))
DoMulSmall == Is("mul_small") /\ Write(GMul(grp, FromBytesLE(e.k), R(e.a)))
(* ---- scalar multiplication (C04) and two-scalar combinations (C10) ---- *)
DoMul == Is("mul") /\ Write(GMul(grp, Sc(e.k), R(e.a)))
DoMulGen == Is("mulgen") /\ Write(GMul(grp, Sc(e.k), GBase(grp)))
DoMulAddMulGen == Is("mul_add_mulgen_vartime")
                  /\ Write(GAdd(grp, GMul(grp, Sc(e.u), R(e.a)), GMul(grp, Sc(e.v), GBase(grp))))
DoMul128 == Is("mul128_add_mulgen_vartime")
            /\ Write(GAdd(grp, GMul(grp, FromBytesLE(e.u), R(e.a)), GMul(grp, Sc(e.v), GBase(grp))))
\* s*G = R + k*Q, up to the cofactor on the Edwards curves (8*s*B = 8*R + 8*k*A)
Cof(P) == CASE grp = "ed25519" -> PXDbl(Ed25519, P, 3) [] grp = "ed448" -> PXDbl(Ed448, P, 2) [] OTHER -> P
\* GLS254: u0*P + u1*mu*P + v*G for two 64-bit integers u0, u1
DoMul64Mu == Is("mul64mu_add_mulgen_vartime")
             /\ LET k == ModAdd(FromBytesLE(e.u0), ModMul(FromBytesLE(e.u1), GlsMu, RGLS254), RGLS254)
                IN Write(GAdd(grp, GMul(grp, k, R(e.a)), GMul(grp, Sc(e.v), GBase(grp))))
DoVerifyHelper ==
    /\ Is("verify_helper")
    /\ LET lhs == GMul(grp, Sc(e.s), GBase(grp))
           rhs == GAdd(grp, R(e.b), GMul(grp, Sc(e.k), R(e.a)))
       IN Observe(Has("res") /\ e.res = GEq(grp, Cof(lhs), Cof(rhs)))
(* ---- observations (C06, C20) ---- *)
DoEncode == Is("encode")
            /\ Observe(/\ Has("out") /\ e.out = GEncode(grp, R(e.a))
                       /\ (Has("outc") => e.outc = GEncodeC(grp, R(e.a))))
DoOneWayMap == Is("one_way_map") /\ Write(GMap(grp, e["in"]))
DoEquals == Is("equals") /\ Observe(Has("st") /\ e.st = Status(GEq(grp, R(e.a), R(e.b))))
DoIsNeutral == Is("isneutral") /\ Observe(Has("st") /\ e.st = Status(GEq(grp, R(e.a), GNeutral(grp))))
CtlOk == Has("ctl") /\ e.ctl \in {"ones", "zero"}
DoSetCond == Is("set_cond") /\ CtlOk /\ Write(IF e.ctl = "ones" THEN R(e.a) ELSE R(e.dst))
DoSelect == Is("select") /\ CtlOk /\ Write(IF e.ctl = "ones" THEN R(e.a1) ELSE R(e.a0))
DoCondNeg == Is("set_condneg") /\ CtlOk /\ Write(IF e.ctl = "ones" THEN GNeg(grp, R(e.a)) ELSE R(e.a))

(* ---- GLS254: the endomorphism and the scalar split along it (C04, C11) ---- *)
\* zeta(P, neg) = mu*P, negated when neg is set
DoZeta == Is("zeta") /\ CtlOk
          /\ Write(LET Q == GMul(grp, GlsMu, R(e.a)) IN IF e.ctl = "ones" THEN GNeg(grp, Q) ELSE Q)
\* split_mu: k = k0 + k1*mu mod r with |k0|, |k1| below 2^127 ("about 2^126.5");
\* split_mu_odd: the same with both integers odd and below 2^128 ("about 2^127.5").
\* Signs are logged as masks; a negative zero is not a valid output.
SignedMod(n, sgn, r) == IF sgn = "ones" THEN ModSub(Zero, Mod(n, r), r) ELSE Mod(n, r)
SplitMuOk(odd) ==
    LET r == RGLS254
        n0 == FromBytesLE(e.n0)   n1 == FromBytesLE(e.n1)
        k == Mod(FromBytesLE(e.k), r)
        lim == IF odd THEN Pow2(128) ELSE Pow2(127)
    IN /\ Has("n0") /\ Has("n1") /\ e.s0 \in {"ones", "zero"} /\ e.s1 \in {"ones", "zero"}
       /\ Lt(n0, lim) /\ Lt(n1, lim)
       /\ (odd => Bit(n0, 0) = 1 /\ Bit(n1, 0) = 1)
       /\ k = ModAdd(SignedMod(n0, e.s0, r), ModMul(SignedMod(n1, e.s1, r), GlsMu, r), r)
DoSplitMu == Is("split_mu") /\ Observe(SplitMuOk(FALSE))
DoSplitMuOdd == Is("split_mu_odd") /\ Observe(SplitMuOk(TRUE))

(* ---- structure tests and coordinate maps of the plain curves ---- *)
FP == CurveOf(grp).p
FLen == IF grp = "ed448" THEN 56 ELSE 32
FV(b) == FromBytesLE(b)
\* low order: killed by the cofactor (8 on edwards25519, 4 on edwards448)
DoHasLowOrder == Is("has_low_order") /\ Observe(Has("st") /\ e.st = Status(Cof(R(e.a)) = GNeutral(grp)))
DoIsInSubgroup == Is("is_in_subgroup")
                  /\ Observe(Has("st") /\ e.st = Status(GMul(grp, ScalarOrder(grp), R(e.a)) = GNeutral(grp)))
\* birational map to the Montgomery curve: u = (1+y)/(1-y) on edwards25519, u = y^2/x^2 on
\* edwards448; 0 for the neutral (x/0 = 0).  Projective form (edwards25519): X/Z = u, and
\* Z = 0, X # 0 exactly for the neutral.
MontU(P) == IF grp = "ed25519" THEN FDiv(FP, FAdd(FP, One, P[2]), FSub(FP, One, P[2]))
            ELSE FSq(FP, FDiv(FP, P[2], P[1]))
DoMontU == Is("to_montgomery_u")
           /\ LET P == R(e.a)
                  u == MontU(P)
              IN Observe(/\ Has("u") /\ e.u = ToBytesLE(u, FLen)
                         /\ (grp = "ed25519" =>
                               IF P = GNeutral(grp) THEN FV(e.pz) = Zero /\ FV(e.px) # Zero
                               ELSE FV(e.pz) # Zero /\ FV(e.px) = FMul(FP, u, FV(e.pz))))
\* Weierstrass curves.  to_affine: the affine coordinates; for the point at infinity the
\* documented substitutes (x = 1 on P-256, x = 0 on secp256k1, y = 0).  (The returned flag r
\* is logged but not compared: see DESIGN.md, observations.)
DoToAffine == Is("to_affine")
              /\ LET P == R(e.a)
                 IN Observe(/\ Has("x") /\ Has("y")
                            /\ IF IsInf(P) THEN FV(e.x) = (IF grp = "p256" THEN One ELSE Zero) /\ FV(e.y) = Zero
                               ELSE e.x = ToBytesLE(P[1], 32) /\ e.y = ToBytesLE(P[2], 32))
\* to_projective: X = Z = 0 (and Y # 0) for infinity; otherwise Z # 0, x = X/Z, y = Y/Z
DoToProjective == Is("to_projective")
                  /\ LET P == R(e.a)
                     IN Observe(/\ Has("x") /\ Has("y") /\ Has("z")
                                /\ IF IsInf(P) THEN FV(e.x) = Zero /\ FV(e.z) = Zero /\ FV(e.y) # Zero
                                   ELSE /\ FV(e.z) # Zero
                                        /\ FV(e.x) = FMul(FP, P[1], FV(e.z)) /\ FV(e.y) = FMul(FP, P[2], FV(e.z)))
\* constructors: the coordinates (reduced) must satisfy the curve equation; any (X : Y : 0) is
\* accepted as the point at infinity
Constructed(ok, P) == IF ok THEN Advance(Put(P), Has("some") /\ e.some = TRUE /\ EncOk(P))
                      ELSE Advance(regs, Has("some") /\ e.some = FALSE)
DoFromAffine == Is("from_affine")
                /\ LET P == <<Mod(FV(e.x), FP), Mod(FV(e.y), FP)>>
                   IN Constructed(WOn(CurveOf(grp), P), P)
DoFromProjective == Is("from_projective")
                    /\ LET x == Mod(FV(e.x), FP)  y == Mod(FV(e.y), FP)  z == Mod(FV(e.z), FP)
                           P == IF z = Zero THEN Inf ELSE <<FDiv(FP, x, z), FDiv(FP, y, z)>>
                       IN Constructed(z = Zero \/ WOn(CurveOf(grp), P), P)
\* x-only sequence (P-256): x(P0 + i*Q) for i = 0..n+1 with Q = P1 - P0; 1 stands for infinity
XA(P) == IF IsInf(P) THEN One ELSE P[1]
RECURSIVE XSeqOk(_, _, _, _)
XSeqOk(P, Q, i, n) ==
    IF i = n THEN e.xn = ToBytesLE(XA(P), 32) /\ e.xn1 = ToBytesLE(XA(GAdd(grp, P, Q)), 32)
    ELSE e.xs[i + 1] = ToBytesLE(XA(P), 32) /\ XSeqOk(GAdd(grp, P, Q), Q, i + 1, n)
DoXSeq == Is("xseq")
          /\ Observe(/\ Has("xs") /\ Has("xn") /\ Has("xn1") /\ Len(e.xs) = e.n
                      /\ XSeqOk(R(e.a), GAdd(grp, R(e.b), GNeg(grp, R(e.a))), 0, e.n))

Next == \/ DoInit \/ DoConst \/ DoDecode \/ DoHasLowOrder \/ DoIsInSubgroup \/ DoMontU
        \/ DoToAffine \/ DoToProjective \/ DoFromAffine \/ DoFromProjective \/ DoXSeq
        \/ DoZeta \/ DoSplitMu \/ DoSplitMuOdd
        \/ DoAdd \/ DoSub \/ DoNeg \/ DoDouble \/ DoXDouble \/ DoMulSmall
        \/ DoMul \/ DoMulGen \/ DoMulAddMulGen \/ DoMul128 \/ DoMul64Mu \/ DoVerifyHelper
        \/ DoOneWayMap \/ DoEncode \/ DoEquals \/ DoIsNeutral \/ DoSetCond \/ DoSelect \/ DoCondNeg
Spec == Init /\ [][Next]_vars
Consumed == TLCGet("stats").diameter - 1
TraceDone == PrintT(<<"TRACE_CONSUMED", Consumed, N>>) /\ Consumed = N
=============================================================================
