---- MODULE TraceTrunc_TTrace_1790981030 ----
EXTENDS Sequences, TLCExt, Toolbox, Naturals, TLC, TraceTrunc

_expression ==
    LET TraceTrunc_TEExpression == INSTANCE TraceTrunc_TEExpression
    IN TraceTrunc_TEExpression!expression
----

_trace ==
    LET TraceTrunc_TETrace == INSTANCE TraceTrunc_TETrace
    IN TraceTrunc_TETrace!trace
----

_inv ==
    ~(
        TLCGet("level") = Len(_TETrace)
        /\
        acc = (<<<<>>, <<1>>>>)
        /\
        cur = (<<>>)
        /\
        stpP = (<<<<>>, <<1>>>>)
        /\
        l = (7)
        /\
        stp = (<<>>)
    )
----

_init ==
    /\ l = _TETrace[1].l
    /\ stp = _TETrace[1].stp
    /\ cur = _TETrace[1].cur
    /\ acc = _TETrace[1].acc
    /\ stpP = _TETrace[1].stpP
----

_next ==
    /\ \E i,j \in DOMAIN _TETrace:
        /\ \/ /\ j = i + 1
              /\ i = TLCGet("level")
        /\ l  = _TETrace[i].l
        /\ l' = _TETrace[j].l
        /\ stp  = _TETrace[i].stp
        /\ stp' = _TETrace[j].stp
        /\ cur  = _TETrace[i].cur
        /\ cur' = _TETrace[j].cur
        /\ acc  = _TETrace[i].acc
        /\ acc' = _TETrace[j].acc
        /\ stpP  = _TETrace[i].stpP
        /\ stpP' = _TETrace[j].stpP

\* Uncomment the ASSUME below to write the states of the error trace
\* to the given file in Json format. Note that you can pass any tuple
\* to `JsonSerialize`. For example, a sub-sequence of _TETrace.
    \* ASSUME
    \*     LET J == INSTANCE Json
    \*         IN J!JsonSerialize("TraceTrunc_TTrace_1790981030.json", _TETrace)

=============================================================================

 Note that you can extract this module `TraceTrunc_TEExpression`
  to a dedicated file to reuse `expression` (the module in the 
  dedicated `TraceTrunc_TEExpression.tla` file takes precedence 
  over the module `TraceTrunc_TEExpression` below).

---- MODULE TraceTrunc_TEExpression ----
EXTENDS Sequences, TLCExt, Toolbox, Naturals, TLC, TraceTrunc

expression == 
    [
        \* To hide variables of the `TraceTrunc` spec from the error trace,
        \* remove the variables below.  The trace will be written in the order
        \* of the fields of this record.
        l |-> l
        ,stp |-> stp
        ,cur |-> cur
        ,acc |-> acc
        ,stpP |-> stpP
        
        \* Put additional constant-, state-, and action-level expressions here:
        \* ,_stateNumber |-> _TEPosition
        \* ,_lUnchanged |-> l = l'
        
        \* Format the `l` variable as Json value.
        \* ,_lJson |->
        \*     LET J == INSTANCE Json
        \*     IN J!ToJson(l)
        
        \* Lastly, you may build expressions over arbitrary sets of states by
        \* leveraging the _TETrace operator.  For example, this is how to
        \* count the number of times a spec variable changed up to the current
        \* state in the trace.
        \* ,_lModCount |->
        \*     LET F[s \in DOMAIN _TETrace] ==
        \*         IF s = 1 THEN 0
        \*         ELSE IF _TETrace[s].l # _TETrace[s-1].l
        \*             THEN 1 + F[s-1] ELSE F[s-1]
        \*     IN F[_TEPosition - 1]
    ]

=============================================================================



Parsing and semantic processing can take forever if the trace below is long.
 In this case, it is advised to uncomment the module below to deserialize the
 trace from a generated binary file.

\*
\*---- MODULE TraceTrunc_TETrace ----
\*EXTENDS IOUtils, TLC, TraceTrunc
\*
\*trace == IODeserialize("TraceTrunc_TTrace_1790981030.bin", TRUE)
\*
\*=============================================================================
\*

---- MODULE TraceTrunc_TETrace ----
EXTENDS TLC, TraceTrunc

trace == 
    <<
    ([acc |-> <<<<>>, <<1>>>>,cur |-> <<>>,stpP |-> <<<<>>, <<1>>>>,l |-> 1,stp |-> <<>>]),
    ([acc |-> <<<<>>, <<1>>>>,cur |-> <<>>,stpP |-> <<<<>>, <<1>>>>,l |-> 2,stp |-> <<>>]),
    ([acc |-> <<<<>>, <<1>>>>,cur |-> <<>>,stpP |-> <<<<>>, <<1>>>>,l |-> 3,stp |-> <<>>]),
    ([acc |-> <<<<>>, <<1>>>>,cur |-> <<>>,stpP |-> <<<<>>, <<1>>>>,l |-> 4,stp |-> <<>>]),
    ([acc |-> <<<<>>, <<1>>>>,cur |-> <<>>,stpP |-> <<<<>>, <<1>>>>,l |-> 5,stp |-> <<>>]),
    ([acc |-> <<<<>>, <<1>>>>,cur |-> <<>>,stpP |-> <<<<>>, <<1>>>>,l |-> 6,stp |-> <<>>]),
    ([acc |-> <<<<>>, <<1>>>>,cur |-> <<>>,stpP |-> <<<<>>, <<1>>>>,l |-> 7,stp |-> <<>>])
    >>
----


=============================================================================

---- CONFIG TraceTrunc_TTrace_1790981030 ----

INVARIANT
    _inv

CHECK_DEADLOCK
    \* CHECK_DEADLOCK off because of PROPERTY or INVARIANT above.
    FALSE

INIT
    _init

NEXT
    _next

CONSTANT
    _TETrace <- _trace

ALIAS
    _expression
=============================================================================
\* Generated on Fri Oct 02 22:43:54 UTC 2026