------------------------------ MODULE JqSchnorr -----------------------------
(***************************************************************************)
(* Schnorr signatures and ECDH of the jq255e / jq255s / GLS254 groups, as  *)
(* the crate documents them (there is no external standard):               *)
(*  signature = c (16 bytes) || s (32 bytes LE, canonical);                *)
(*  c = first 16 bytes of BLAKE2s(enc(R) || pk || tag || data),            *)
(*      tag = 0x52 for raw data, 0x48 || hash-name || 0x00 for a hash;     *)
(*  verification: R = [s]B - [c']Q with c' the 128-bit little-endian       *)
(*      integer (jq255e/s) or c0 + c1*mu for the two 64-bit halves         *)
(*      (GLS254), and the recomputed challenge must equal c;               *)
(*  deterministic nonce k = BLAKE2s(sk || pk || len(seed) (8 bytes LE) ||  *)
(*      seed || tag || data) mod r;                                        *)
(*  ECDH key = BLAKE2s(pk_low || pk_high || 0x53 || enc([sk]Q)) on        *)
(*      success (keys ordered lexicographically), status all-ones.         *)
(***************************************************************************)
EXTENDS Groups, Blake2s

JqGroups == {"jq255e", "jq255s", "gls254"}
Tag(hn) == IF hn = <<>> THEN <<82>> ELSE <<72>> \o hn \o <<0>>
JChallenge(g, R, pk, hn, data) == SubSeq(Blake2s(GEncode(g, R) \o pk \o Tag(hn) \o data, <<>>, 32), 1, 16)
\* multiplier derived from the 16 challenge bytes
JMult(g, c) == IF g = "gls254"
               THEN ModAdd(FromBytesLE(SubSeq(c, 1, 8)), ModMul(FromBytesLE(SubSeq(c, 9, 16)), GlsMu, RGLS254), RGLS254)
               ELSE FromBytesLE(c)
\* public keys: valid non-neutral element encodings
JPkOk(g, pk) == LET d == GDecode(g, pk) IN d[1] /\ ~GEq(g, d[2], GNeutral(g))
\* private keys: canonical non-zero scalars
JSkOk(g, sk) == Len(sk) = 32 /\ Lt(FromBytesLE(sk), ScalarOrder(g)) /\ ~IsZero(FromBytesLE(sk))
JPub(g, sk) == GEncode(g, GMul(g, FromBytesLE(sk), GBase(g)))

JVerify(g, pk, sig, hn, data) ==
    /\ Len(sig) = 48
    /\ LET c == SubSeq(sig, 1, 16)
           s == FromBytesLE(SubSeq(sig, 17, 48))
           Q == GDecode(g, pk)[2]
       IN /\ Lt(s, ScalarOrder(g))
          /\ LET R == GAdd(g, GMul(g, s, GBase(g)), GNeg(g, GMul(g, Mod(JMult(g, c), ScalarOrder(g)), Q)))
             IN JChallenge(g, R, pk, hn, data) = c

U64LE(n) == ToBytesLE(FromInt(n), 8)
JSign(g, sk, seed, hn, data) ==
    LET r == ScalarOrder(g)
        x == FromBytesLE(sk)
        pk == JPub(g, sk)
        k == Mod(FromBytesLE(Blake2s(sk \o pk \o U64LE(Len(seed)) \o seed \o Tag(hn) \o data, <<>>, 32)), r)
        c == JChallenge(g, GMul(g, k, GBase(g)), pk, hn, data)
    IN c \o ToBytesLE(ModAdd(k, ModMul(x, Mod(JMult(g, c), r), r), r), 32)

\* lexicographic order on 32-byte strings, byte 0 most significant
RECURSIVE LexLt(_, _, _)
LexLt(a, b, i) == IF i > Len(a) THEN FALSE ELSE IF a[i] # b[i] THEN a[i] < b[i] ELSE LexLt(a, b, i + 1)
JEcdhOk(g, peer) == Len(peer) = 32 /\ JPkOk(g, peer)
JEcdhKey(g, sk, peer) ==      \* defined when JEcdhOk
    LET own == JPub(g, sk)
        shared == GEncode(g, GMul(g, FromBytesLE(sk), GDecode(g, peer)[2]))
        lo == IF LexLt(own, peer, 1) THEN own ELSE peer
        hi == IF LexLt(own, peer, 1) THEN peer ELSE own
    IN Blake2s(lo \o hi \o <<83>> \o shared, <<>>, 32)
\* "On failure, a different key (unguessable by outsiders) is returned": the keys an outsider
\* obtains by running the scheme's own derivation with a PUBLIC value in place of the shared
\* secret (the neutral's encoding, all-zero bytes, either public key), any ordering of the
\* two keys and either status tag.  A failure key in this set does not depend on the secret.
JEcdhGuesses(g, sk, peer) ==
    LET own == JPub(g, sk)
        pre == {own \o peer, peer \o own}
        pub == {[i \in 1..32 |-> 0], GEncode(g, GNeutral(g)), own} \cup (IF Len(peer) = 32 THEN {peer} ELSE {})
    IN {Blake2s(p \o <<t>> \o x, <<>>, 32) : p \in pre, t \in {70, 83}, x \in pub}
=============================================================================
