------------------------------ MODULE TraceZz -------------------------------
(***************************************************************************)
(* Trace specification of the public integer helper types Zu128 / Zu256 /  *)
(* Zu384 (src/backend/w64/zz.rs, src/backend/w32/zz.rs): the fixed-width   *)
(* integers that carry the rounded divisions of the endomorphism splits    *)
(* (C11; C18 for the 32-bit backend).  Every operation is plain modular    *)
(* integer arithmetic; the values of the opaque types are observed through *)
(* the API (abs() of a Zu128; the halves of a Zu256), so every recorded    *)
(* output is a function of the operands that TLC recomputes over BigNat.   *)
(***************************************************************************)
EXTENDS BigNat, Integers, Sequences, TLC, Json, IOUtils

Rec == ndJsonDeserialize(IOEnv.TRACE)
N == Len(Rec)
VARIABLES l
vars == <<l>>
e == Rec[l]
Has(f) == f \in DOMAIN e
Is(op) == l <= N /\ e.op = op
Chk(ok) == IF ok THEN TRUE ELSE PrintT(<<"MISMATCH", l, e.op>>)
Step(ok) == Chk(ok) /\ l' = l + 1

T127 == Pow2(127)
T128 == Pow2(128)
T256 == Pow2(256)
T384 == Pow2(384)
V(b) == FromBytesLE(b)
M128(x) == LowBits(x, 128)
\* (magnitude, sign mask) of the signed reading of a 128-bit pattern x
Obs128(x, mag, sgn) ==
    IF Lt(x, T127) THEN sgn = "zero" /\ V(mag) = x ELSE sgn = "ones" /\ V(mag) = Sub(T128, x)
\* both halves of a 256-bit pattern
Obs256(x, lo, los, hi, his) == Obs128(M128(x), lo, los) /\ Obs128(Shr(x, 128), hi, his)
\* a - b modulo 2^k
SubMod(a, b, t) == IF Lt(a, b) THEN Sub(Add(a, t), b) ELSE Sub(a, b)

Init == l = 1
DoInit == Is("init") /\ l' = l + 1
DoDecode == Is("zz_decode") /\ Step(e.some128 = (e.len = 16) /\ e.some256 = (e.len = 32))
DoUn == Is("zz128_un")
        /\ LET a == V(e.a)
               neg == ~Lt(a, T127)
               \* |2x + 1| for the signed reading x of a
               dia == IF neg THEN Sub(Shl(Sub(T128, a), 1), One) ELSE Add(Shl(a, 1), One)
           IN Step(/\ Has("abs") /\ Obs128(a, e.abs, e.sgn)
                   /\ V(e.dia) = dia /\ e.dsgn = (IF neg THEN "ones" ELSE "zero"))
DoSubU32 == Is("zz128_sub_u32") /\ Step(Has("abs") /\ Obs128(SubMod(V(e.a), V(e.w), T128), e.abs, e.sgn))
DoBin128 == Is("zz128_bin")
            /\ LET a == V(e.a)  b == V(e.b)  p == Mul(a, b)
               IN Step(/\ Has("plo") /\ Obs256(p, e.plo, e.plos, e.phi, e.phis)
                       /\ Obs128(M128(p), e.trunc, e.truncs)
                       /\ Obs128(SubMod(a, b, T128), e.diff, e.diffs))
DoBin256 == Is("zz256_bin")
            /\ LET a == V(e.a)  b == V(e.b)
               IN Step(/\ Has("rsh") /\ V(e.rsh) = Shr(LowBits(Add(a, b), 256), 224)
                       /\ e.borrow = (IF Lt(a, b) THEN 1 ELSE 0)
                       /\ Obs256(a, e.lo, e.los, e.hi, e.his))
\* p = a*b (+ c*d) modulo 2^384; trunc_and_rsh_cc(cc, n): (p mod 2^n, (floor(p / 2^n) + cc) mod 2^128)
Do384 == Is("zz384")
         /\ LET p0 == Mul(V(e.a), V(e.b))
                p == LowBits(IF e.add THEN Add(p0, Mul(V(e.c), V(e.d))) ELSE p0, 384)
                lo == LowBits(p, e.n)
                hi == M128(Add(Shr(p, e.n), V(e.cc)))
            IN Step(/\ e.n \in 225..255 /\ Has("lo")
                    /\ Obs256(lo, e.lo, e.los, e.mid, e.mids)
                    /\ Obs128(hi, e.hi, e.his))
Next == DoInit \/ DoDecode \/ DoUn \/ DoSubU32 \/ DoBin128 \/ DoBin256 \/ Do384
Spec == Init /\ [][Next]_vars
Consumed == TLCGet("stats").diameter - 1
TraceDone == PrintT(<<"TRACE_CONSUMED", Consumed, N>>) /\ Consumed = N
=============================================================================
