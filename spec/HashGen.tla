------------------------------- MODULE HashGen ------------------------------
(***************************************************************************)
(* Generator model for C17: the hash API as a state machine over instance  *)
(* modes only.  TLC enumerates every call history of length Depth that the *)
(* documentation allows (update only while absorbing, extract only after   *)
(* flip, BLAKE2s dead after a non-resetting finalize, ...) over symbolic   *)
(* length classes, and prints each complete history as one JSON script.    *)
(* The scripts are replayed into the real code, whose trace TLC then       *)
(* validates against TraceHash (spec -> impl -> spec).                     *)
(***************************************************************************)
EXTENDS Naturals, Sequences, TLC, Json

CONSTANTS Kind,      \* "plain" (SHA-2, SHA-3), "shake", "blake", "sha2" / "blakectr" (SHA-2 / BLAKE2s with the counter hook)
          Depth,     \* calls per history
          NSlots,    \* instances
          LenC,      \* symbolic input-length classes
          OutC,      \* symbolic output-length classes (SHAKE)
          SkipC      \* symbolic targets of the counter advance (guarded hook verif_skip_blocks; kind "sha2" only)

VARIABLES mode, hist
vars == <<mode, hist>>

Slots == 0..(NSlots - 1)
Call(op, h, arg) == [op |-> op, h |-> h, arg |-> arg]
Do(c, newmode) == Len(hist) < Depth /\ hist' = Append(hist, c) /\ mode' = newmode

Init == mode = [s \in Slots |-> IF s = 0 THEN "in" ELSE "none"] /\ hist = <<>>

Update(s, c) == mode[s] = "in" /\ Do(Call("update", s, c), mode)
Reset(s) == mode[s] # "none" /\ Do(Call("reset", s, "-"), [mode EXCEPT ![s] = "in"])
IsBlake == Kind \in {"blake", "blakectr"}
HasCtr == Kind \in {"sha2", "blakectr"}
Clone(s, t) == ~IsBlake /\ mode[s] # "none" /\ s # t /\ Do([op |-> "clone", h |-> s, arg |-> "-", h2 |-> t], [mode EXCEPT ![t] = mode[s]])
\* SHA-2 / SHA-3: every finalization resets
FinPlain(s, f) == Kind \in {"plain", "sha2"} /\ mode[s] = "in" /\ Do(Call(f, s, "-"), mode)
\* BLAKE2s: finalize_write leaves the instance unusable until reset
FinBlake(s) == IsBlake /\ mode[s] = "in" /\ Do(Call("finalize_write", s, "-"), [mode EXCEPT ![s] = "dead"])
FinBlakeR(s) == IsBlake /\ mode[s] = "in" /\ Do(Call("finalize_reset_write", s, "-"), mode)
\* the hook moves the count of processed bytes to just below a power of two; the instance stays in absorbing mode
Skip(s, c) == HasCtr /\ mode[s] = "in" /\ Do(Call("skip", s, c), mode)
Flip(s) == Kind = "shake" /\ mode[s] = "in" /\ Do(Call("flip", s, "-"), [mode EXCEPT ![s] = "out"])
Extract(s, c) == Kind = "shake" /\ mode[s] = "out" /\ Do(Call("extract", s, c), mode)
FlipExtract(s, c) == Kind = "shake" /\ mode[s] = "in" /\ Do(Call("flip_extract", s, c), [mode EXCEPT ![s] = "out"])
FlipExtractReset(s, c) == Kind = "shake" /\ mode[s] = "in" /\ Do(Call("flip_extract_reset", s, c), mode)

Next == \E s \in Slots :
          \/ \E c \in LenC : Update(s, c)
          \/ Reset(s)
          \/ \E c \in SkipC : Skip(s, c)
          \/ \E t \in Slots : Clone(s, t)
          \/ \E f \in {"digest", "finalize_reset_write"} : FinPlain(s, f)
          \/ FinBlake(s) \/ FinBlakeR(s)
          \/ Flip(s)
          \/ \E c \in OutC : Extract(s, c) \/ FlipExtract(s, c) \/ FlipExtractReset(s, c)

Spec == Init /\ [][Next]_vars

\* design invariants of the API model
ModeOk == \A s \in Slots : mode[s] \in {"none", "in", "out", "dead"}
KindOk == /\ (Kind # "shake" => \A s \in Slots : mode[s] # "out")
          /\ (~IsBlake => \A s \in Slots : mode[s] # "dead")
\* emit each complete history once (hist is part of the state, so histories are distinct states)
Emit == (Len(hist) = Depth /\ (HasCtr => \E i \in 1..Depth : hist[i].op = "skip")) => PrintT(<<"SCRIPT", ToJson(hist)>>)
=============================================================================
