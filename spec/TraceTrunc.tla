----------------------------- MODULE TraceTrunc -----------------------------
(***************************************************************************)
(* Truncated-signature verification (C13).                                 *)
(*                                                                         *)
(* Soundness: whatever is returned verifies under the ordinary verifier    *)
(* (EdDSA.tla / ECDSA.tla) and agrees with the input on the kept bits.     *)
(* Completeness: a valid signature whose last rm bits were overwritten is  *)
(* returned unchanged (P-256: the prepared signature in big-endian form).  *)
(*                                                                         *)
(* The sweep events walk S = S0 + j*step under the public key A = neutral, *)
(* for which (R = [S]B, S) is valid for every S; the specification keeps   *)
(* [S]B in its state and advances it by one point addition per event, so   *)
(* that every value of the truncated top bits -- hence every entry of the  *)
(* implementation's search table, in both search directions -- is          *)
(* exercised at the cost of one addition each.                             *)
(***************************************************************************)
EXTENDS TLC, Json, IOUtils, Integers, Sequences
ED == INSTANCE EdDSA
EC == INSTANCE ECDSA
BN == INSTANCE BigNat

Rec == ndJsonDeserialize(IOEnv.TRACE)
N == Len(Rec)
VARIABLES l, cur, acc, stp, stpP
vars == <<l, cur, acc, stp, stpP>>
e == Rec[l]
Has(f) == f \in DOMAIN e
Is(op) == l <= N /\ e.op = op
Chk(ok) == IF ok THEN TRUE ELSE PrintT(<<"MISMATCH", l, e.op>>)
Keep == UNCHANGED <<cur, acc, stp, stpP>>

\* a and b (64 bytes) agree on everything but the last rm bits
Agree(a, b, rm) == Len(a) = 64 /\ Len(b) = 64
                   /\ BN!LowBits(BN!FromBytesLE(a), 512 - rm) = BN!LowBits(BN!FromBytesLE(b), 512 - rm)
NeutralPk == [i \in 1..32 |-> IF i = 1 THEN 1 ELSE 0]

Init == l = 1 /\ cur = <<>> /\ acc = ED!TedNeutral /\ stp = <<>> /\ stpP = ED!TedNeutral
DoInit == Is("init") /\ l' = l + 1 /\ Keep

(* ---- Ed25519, general case ---- *)
DoEdTrunc ==
    /\ Is("ed_trunc")
    /\ LET valid == ED!Verify(FALSE, e.mode, e.pk, e.orig, e.ctx, e.msg) /\ Agree(e.sig, e.orig, e.rm)
       IN Chk(/\ Has("some") /\ e.rm \in 8..32
              /\ IF valid THEN e.some /\ Has("out") /\ e.out = e.orig
                 ELSE (e.some => Has("out") /\ ED!Verify(FALSE, e.mode, e.pk, e.out, e.ctx, e.msg) /\ Agree(e.out, e.sig, e.rm)))
    /\ l' = l + 1 /\ Keep

(* ---- Ed25519, sweep over the truncated bits with A = neutral ---- *)
DoSweepInit ==
    /\ Is("sweep_init")
    /\ cur' = BN!FromBytesLE(e.s0) /\ stp' = BN!FromBytesLE(e.step)
    /\ acc' = ED!MulGen(ED!Ed25519, BN!FromBytesLE(e.s0))
    /\ stpP' = ED!MulGen(ED!Ed25519, BN!FromBytesLE(e.step))
    /\ l' = l + 1
DoSweepStep ==
    /\ Is("sweep_step")
    /\ LET S == BN!Add(cur, stp)
           P == ED!TedAdd(ED!Ed25519, acc, stpP)
           orig == ED!EdEncode(ED!Ed25519, 32, P) \o BN!ToBytesLE(S, 32)
       IN /\ Chk(/\ BN!Lt(S, ED!Ed25519.n) /\ e.rm \in 8..32
                 /\ e.orig = orig                      \* valid under A = neutral by construction: [S]B - R = 0
                 /\ Agree(e.sig, orig, e.rm)
                 /\ Has("some") /\ e.some /\ Has("out") /\ e.out = orig)
          /\ cur' = S /\ acc' = P
    /\ l' = l + 1 /\ UNCHANGED <<stp, stpP>>

(* ---- P-256 ---- *)
PMinusN == BN!Sub(EC!QP256, EC!NP256)
T255 == BN!Pow2(255)
\* documented preparation: the signature has even length 2..64 ("shorter lengths are possible
\* if the source integers happen to be both lower than 2^248"), its halves are r and s
\* (unsigned big-endian); r, s in range, r >= p - n; s replaced by n - s when s >= 2^255;
\* output: r big-endian on 32 bytes, s little-endian on 32 bytes
Prepared(sig) ==
    IF Len(sig) % 2 # 0 \/ Len(sig) = 0 \/ Len(sig) > 64 THEN <<FALSE, <<>>, <<>>>> ELSE
    LET h == Len(sig) \div 2
        r == BN!FromBytesBE(SubSeq(sig, 1, h))
        s == BN!FromBytesBE(SubSeq(sig, h + 1, 2 * h))
        ok == /\ ~BN!IsZero(r) /\ BN!Lt(r, EC!NP256) /\ ~BN!IsZero(s) /\ BN!Lt(s, EC!NP256)
              /\ ~BN!Lt(r, PMinusN)
        s2 == IF BN!Lt(s, T255) THEN s ELSE BN!Sub(EC!NP256, s)
    IN <<ok, BN!ToBytesBE(r, 32) \o BN!ToBytesLE(s2, 32), BN!ToBytesBE(r, 32) \o BN!ToBytesBE(s2, 32)>>
DoPrepare == Is("p256_prepare")
             /\ LET p == Prepared(e.sig)
                IN Chk(Has("some") /\ e.some = p[1] /\ (p[1] => e.out = p[2]))
             /\ l' = l + 1 /\ Keep
\* e.orig: a prepared signature; e.sig: the same with the last rm bits overwritten (or altered)
DoP256Trunc ==
    /\ Is("p256_trunc")
    /\ LET std == SubSeq(e.orig, 1, 32) \o BN!ToBytesBE(BN!FromBytesLE(SubSeq(e.orig, 33, 64)), 32)
           valid == EC!Verify(EC!P256, e.pk, std, e.hv) /\ Agree(e.sig, e.orig, e.rm)
           \* a returned signature, put back in prepared form, must agree with the input on the kept bits
           outPrep == IF Has("out") /\ Len(e.out) = 64
                      THEN SubSeq(e.out, 1, 32) \o BN!ToBytesLE(BN!FromBytesBE(SubSeq(e.out, 33, 64)), 32) ELSE <<>>
       IN Chk(/\ Has("some") /\ e.rm \in 8..32
              /\ IF valid THEN e.some /\ Has("out") /\ e.out = std
                 ELSE (e.some => Has("out") /\ EC!Verify(EC!P256, e.pk, e.out, e.hv) /\ Agree(outPrep, e.sig, e.rm)))
    /\ l' = l + 1 /\ Keep

Next == DoInit \/ DoEdTrunc \/ DoSweepInit \/ DoSweepStep \/ DoPrepare \/ DoP256Trunc
Spec == Init /\ [][Next]_vars
Consumed == TLCGet("stats").diameter - 1
TraceDone == PrintT(<<"TRACE_CONSUMED", Consumed, N>>) /\ Consumed = N
=============================================================================
