---- MODULE AlgLagrange_TTrace_1790981758 ----
EXTENDS Sequences, TLCExt, AlgLagrange, Toolbox, Naturals, TLC

_expression ==
    LET AlgLagrange_TEExpression == INSTANCE AlgLagrange_TEExpression
    IN AlgLagrange_TEExpression!expression
----

_trace ==
    LET AlgLagrange_TETrace == INSTANCE AlgLagrange_TETrace
    IN AlgLagrange_TETrace!trace
----

_inv ==
    ~(
        TLCGet("level") = Len(_TETrace)
        /\
        phase = (1)
        /\
        nu = (1187465)
        /\
        nv = (226)
        /\
        k = (16366)
        /\
        steps = (65)
        /\
        n = (16381)
        /\
        stuck = (0)
        /\
        lastBl = (28)
        /\
        v0 = (15)
        /\
        u0 = (61)
        /\
        v1 = (-1)
        /\
        u1 = (1088)
        /\
        sp = (-173)
    )
----

_init ==
    /\ u0 = _TETrace[1].u0
    /\ u1 = _TETrace[1].u1
    /\ sp = _TETrace[1].sp
    /\ lastBl = _TETrace[1].lastBl
    /\ v0 = _TETrace[1].v0
    /\ v1 = _TETrace[1].v1
    /\ nu = _TETrace[1].nu
    /\ nv = _TETrace[1].nv
    /\ k = _TETrace[1].k
    /\ n = _TETrace[1].n
    /\ steps = _TETrace[1].steps
    /\ phase = _TETrace[1].phase
    /\ stuck = _TETrace[1].stuck
----

_next ==
    /\ \E i,j \in DOMAIN _TETrace:
        /\ \/ /\ j = i + 1
              /\ i = TLCGet("level")
        /\ u0  = _TETrace[i].u0
        /\ u0' = _TETrace[j].u0
        /\ u1  = _TETrace[i].u1
        /\ u1' = _TETrace[j].u1
        /\ sp  = _TETrace[i].sp
        /\ sp' = _TETrace[j].sp
        /\ lastBl  = _TETrace[i].lastBl
        /\ lastBl' = _TETrace[j].lastBl
        /\ v0  = _TETrace[i].v0
        /\ v0' = _TETrace[j].v0
        /\ v1  = _TETrace[i].v1
        /\ v1' = _TETrace[j].v1
        /\ nu  = _TETrace[i].nu
        /\ nu' = _TETrace[j].nu
        /\ nv  = _TETrace[i].nv
        /\ nv' = _TETrace[j].nv
        /\ k  = _TETrace[i].k
        /\ k' = _TETrace[j].k
        /\ n  = _TETrace[i].n
        /\ n' = _TETrace[j].n
        /\ steps  = _TETrace[i].steps
        /\ steps' = _TETrace[j].steps
        /\ phase  = _TETrace[i].phase
        /\ phase' = _TETrace[j].phase
        /\ stuck  = _TETrace[i].stuck
        /\ stuck' = _TETrace[j].stuck

\* Uncomment the ASSUME below to write the states of the error trace
\* to the given file in Json format. Note that you can pass any tuple
\* to `JsonSerialize`. For example, a sub-sequence of _TETrace.
    \* ASSUME
    \*     LET J == INSTANCE Json
    \*         IN J!JsonSerialize("AlgLagrange_TTrace_1790981758.json", _TETrace)

=============================================================================

 Note that you can extract this module `AlgLagrange_TEExpression`
  to a dedicated file to reuse `expression` (the module in the 
  dedicated `AlgLagrange_TEExpression.tla` file takes precedence 
  over the module `AlgLagrange_TEExpression` below).

---- MODULE AlgLagrange_TEExpression ----
EXTENDS Sequences, TLCExt, AlgLagrange, Toolbox, Naturals, TLC

expression == 
    [
        \* To hide variables of the `AlgLagrange` spec from the error trace,
        \* remove the variables below.  The trace will be written in the order
        \* of the fields of this record.
        u0 |-> u0
        ,u1 |-> u1
        ,sp |-> sp
        ,lastBl |-> lastBl
        ,v0 |-> v0
        ,v1 |-> v1
        ,nu |-> nu
        ,nv |-> nv
        ,k |-> k
        ,n |-> n
        ,steps |-> steps
        ,phase |-> phase
        ,stuck |-> stuck
        
        \* Put additional constant-, state-, and action-level expressions here:
        \* ,_stateNumber |-> _TEPosition
        \* ,_u0Unchanged |-> u0 = u0'
        
        \* Format the `u0` variable as Json value.
        \* ,_u0Json |->
        \*     LET J == INSTANCE Json
        \*     IN J!ToJson(u0)
        
        \* Lastly, you may build expressions over arbitrary sets of states by
        \* leveraging the _TETrace operator.  For example, this is how to
        \* count the number of times a spec variable changed up to the current
        \* state in the trace.
        \* ,_u0ModCount |->
        \*     LET F[s \in DOMAIN _TETrace] ==
        \*         IF s = 1 THEN 0
        \*         ELSE IF _TETrace[s].u0 # _TETrace[s-1].u0
        \*             THEN 1 + F[s-1] ELSE F[s-1]
        \*     IN F[_TEPosition - 1]
    ]

=============================================================================



Parsing and semantic processing can take forever if the trace below is long.
 In this case, it is advised to uncomment the module below to deserialize the
 trace from a generated binary file.

\*
\*---- MODULE AlgLagrange_TETrace ----
\*EXTENDS IOUtils, AlgLagrange, TLC
\*
\*trace == IODeserialize("AlgLagrange_TTrace_1790981758.bin", TRUE)
\*
\*=============================================================================
\*

---- MODULE AlgLagrange_TETrace ----
EXTENDS AlgLagrange, TLC

trace == 
    <<
    ([phase |-> 1,nu |-> 268337161,nv |-> 267845957,k |-> 16366,steps |-> 0,n |-> 16381,stuck |-> 0,lastBl |-> 28,v0 |-> 16366,u0 |-> 16381,v1 |-> 1,u1 |-> 0,sp |-> 268091446]),
    ([phase |-> 1,nu |-> 226,nv |-> 267845957,k |-> 16366,steps |-> 1,n |-> 16381,stuck |-> 0,lastBl |-> 28,v0 |-> 16366,u0 |-> 15,v1 |-> 1,u1 |-> -1,sp |-> 245489]),
    ([phase |-> 1,nu |-> 2062661,nv |-> 226,k |-> 16366,steps |-> 2,n |-> 16381,stuck |-> 0,lastBl |-> 28,v0 |-> 15,u0 |-> 1006,v1 |-> -1,u1 |-> 1025,sp |-> 14065]),
    ([phase |-> 1,nu |-> 1188037,nv |-> 226,k |-> 16366,steps |-> 3,n |-> 16381,stuck |-> 0,lastBl |-> 28,v0 |-> 15,u0 |-> 46,v1 |-> -1,u1 |-> 1089,sp |-> -399]),
    ([phase |-> 1,nu |-> 1187345,nv |-> 226,k |-> 16366,steps |-> 4,n |-> 16381,stuck |-> 0,lastBl |-> 28,v0 |-> 15,u0 |-> 76,v1 |-> -1,u1 |-> 1087,sp |-> 53]),
    ([phase |-> 1,nu |-> 1187465,nv |-> 226,k |-> 16366,steps |-> 5,n |-> 16381,stuck |-> 0,lastBl |-> 28,v0 |-> 15,u0 |-> 61,v1 |-> -1,u1 |-> 1088,sp |-> -173]),
    ([phase |-> 1,nu |-> 1187345,nv |-> 226,k |-> 16366,steps |-> 6,n |-> 16381,stuck |-> 0,lastBl |-> 28,v0 |-> 15,u0 |-> 76,v1 |-> -1,u1 |-> 1087,sp |-> 53]),
    ([phase |-> 1,nu |-> 1187465,nv |-> 226,k |-> 16366,steps |-> 7,n |-> 16381,stuck |-> 0,lastBl |-> 28,v0 |-> 15,u0 |-> 61,v1 |-> -1,u1 |-> 1088,sp |-> -173]),
    ([phase |-> 1,nu |-> 1187345,nv |-> 226,k |-> 16366,steps |-> 8,n |-> 16381,stuck |-> 0,lastBl |-> 28,v0 |-> 15,u0 |-> 76,v1 |-> -1,u1 |-> 1087,sp |-> 53]),
    ([phase |-> 1,nu |-> 1187465,nv |-> 226,k |-> 16366,steps |-> 9,n |-> 16381,stuck |-> 0,lastBl |-> 28,v0 |-> 15,u0 |-> 61,v1 |-> -1,u1 |-> 1088,sp |-> -173]),
    ([phase |-> 1,nu |-> 1187345,nv |-> 226,k |-> 16366,steps |-> 10,n |-> 16381,stuck |-> 0,lastBl |-> 28,v0 |-> 15,u0 |-> 76,v1 |-> -1,u1 |-> 1087,sp |-> 53]),
    ([phase |-> 1,nu |-> 1187465,nv |-> 226,k |-> 16366,steps |-> 11,n |-> 16381,stuck |-> 0,lastBl |-> 28,v0 |-> 15,u0 |-> 61,v1 |-> -1,u1 |-> 1088,sp |-> -173]),
    ([phase |-> 1,nu |-> 1187345,nv |-> 226,k |-> 16366,steps |-> 12,n |-> 16381,stuck |-> 0,lastBl |-> 28,v0 |-> 15,u0 |-> 76,v1 |-> -1,u1 |-> 1087,sp |-> 53]),
    ([phase |-> 1,nu |-> 1187465,nv |-> 226,k |-> 16366,steps |-> 13,n |-> 16381,stuck |-> 0,lastBl |-> 28,v0 |-> 15,u0 |-> 61,v1 |-> -1,u1 |-> 1088,sp |-> -173]),
    ([phase |-> 1,nu |-> 1187345,nv |-> 226,k |-> 16366,steps |-> 14,n |-> 16381,stuck |-> 0,lastBl |-> 28,v0 |-> 15,u0 |-> 76,v1 |-> -1,u1 |-> 1087,sp |-> 53]),
    ([phase |-> 1,nu |-> 1187465,nv |-> 226,k |-> 16366,steps |-> 15,n |-> 16381,stuck |-> 0,lastBl |-> 28,v0 |-> 15,u0 |-> 61,v1 |-> -1,u1 |-> 1088,sp |-> -173]),
    ([phase |-> 1,nu |-> 1187345,nv |-> 226,k |-> 16366,steps |-> 16,n |-> 16381,stuck |-> 0,lastBl |-> 28,v0 |-> 15,u0 |-> 76,v1 |-> -1,u1 |-> 1087,sp |-> 53]),
    ([phase |-> 1,nu |-> 1187465,nv |-> 226,k |-> 16366,steps |-> 17,n |-> 16381,stuck |-> 0,lastBl |-> 28,v0 |-> 15,u0 |-> 61,v1 |-> -1,u1 |-> 1088,sp |-> -173]),
    ([phase |-> 1,nu |-> 1187345,nv |-> 226,k |-> 16366,steps |-> 18,n |-> 16381,stuck |-> 0,lastBl |-> 28,v0 |-> 15,u0 |-> 76,v1 |-> -1,u1 |-> 1087,sp |-> 53]),
    ([phase |-> 1,nu |-> 1187465,nv |-> 226,k |-> 16366,steps |-> 19,n |-> 16381,stuck |-> 0,lastBl |-> 28,v0 |-> 15,u0 |-> 61,v1 |-> -1,u1 |-> 1088,sp |-> -173]),
    ([phase |-> 1,nu |-> 1187345,nv |-> 226,k |-> 16366,steps |-> 20,n |-> 16381,stuck |-> 0,lastBl |-> 28,v0 |-> 15,u0 |-> 76,v1 |-> -1,u1 |-> 1087,sp |-> 53]),
    ([phase |-> 1,nu |-> 1187465,nv |-> 226,k |-> 16366,steps |-> 21,n |-> 16381,stuck |-> 0,lastBl |-> 28,v0 |-> 15,u0 |-> 61,v1 |-> -1,u1 |-> 1088,sp |-> -173]),
    ([phase |-> 1,nu |-> 1187345,nv |-> 226,k |-> 16366,steps |-> 22,n |-> 16381,stuck |-> 0,lastBl |-> 28,v0 |-> 15,u0 |-> 76,v1 |-> -1,u1 |-> 1087,sp |-> 53]),
    ([phase |-> 1,nu |-> 1187465,nv |-> 226,k |-> 16366,steps |-> 23,n |-> 16381,stuck |-> 0,lastBl |-> 28,v0 |-> 15,u0 |-> 61,v1 |-> -1,u1 |-> 1088,sp |-> -173]),
    ([phase |-> 1,nu |-> 1187345,nv |-> 226,k |-> 16366,steps |-> 24,n |-> 16381,stuck |-> 0,lastBl |-> 28,v0 |-> 15,u0 |-> 76,v1 |-> -1,u1 |-> 1087,sp |-> 53]),
    ([phase |-> 1,nu |-> 1187465,nv |-> 226,k |-> 16366,steps |-> 25,n |-> 16381,stuck |-> 0,lastBl |-> 28,v0 |-> 15,u0 |-> 61,v1 |-> -1,u1 |-> 1088,sp |-> -173]),
    ([phase |-> 1,nu |-> 1187345,nv |-> 226,k |-> 16366,steps |-> 26,n |-> 16381,stuck |-> 0,lastBl |-> 28,v0 |-> 15,u0 |-> 76,v1 |-> -1,u1 |-> 1087,sp |-> 53]),
    ([phase |-> 1,nu |-> 1187465,nv |-> 226,k |-> 16366,steps |-> 27,n |-> 16381,stuck |-> 0,lastBl |-> 28,v0 |-> 15,u0 |-> 61,v1 |-> -1,u1 |-> 1088,sp |-> -173]),
    ([phase |-> 1,nu |-> 1187345,nv |-> 226,k |-> 16366,steps |-> 28,n |-> 16381,stuck |-> 0,lastBl |-> 28,v0 |-> 15,u0 |-> 76,v1 |-> -1,u1 |-> 1087,sp |-> 53]),
    ([phase |-> 1,nu |-> 1187465,nv |-> 226,k |-> 16366,steps |-> 29,n |-> 16381,stuck |-> 0,lastBl |-> 28,v0 |-> 15,u0 |-> 61,v1 |-> -1,u1 |-> 1088,sp |-> -173]),
    ([phase |-> 1,nu |-> 1187345,nv |-> 226,k |-> 16366,steps |-> 30,n |-> 16381,stuck |-> 0,lastBl |-> 28,v0 |-> 15,u0 |-> 76,v1 |-> -1,u1 |-> 1087,sp |-> 53]),
    ([phase |-> 1,nu |-> 1187465,nv |-> 226,k |-> 16366,steps |-> 31,n |-> 16381,stuck |-> 0,lastBl |-> 28,v0 |-> 15,u0 |-> 61,v1 |-> -1,u1 |-> 1088,sp |-> -173]),
    ([phase |-> 1,nu |-> 1187345,nv |-> 226,k |-> 16366,steps |-> 32,n |-> 16381,stuck |-> 0,lastBl |-> 28,v0 |-> 15,u0 |-> 76,v1 |-> -1,u1 |-> 1087,sp |-> 53]),
    ([phase |-> 1,nu |-> 1187465,nv |-> 226,k |-> 16366,steps |-> 33,n |-> 16381,stuck |-> 0,lastBl |-> 28,v0 |-> 15,u0 |-> 61,v1 |-> -1,u1 |-> 1088,sp |-> -173]),
    ([phase |-> 1,nu |-> 1187345,nv |-> 226,k |-> 16366,steps |-> 34,n |-> 16381,stuck |-> 0,lastBl |-> 28,v0 |-> 15,u0 |-> 76,v1 |-> -1,u1 |-> 1087,sp |-> 53]),
    ([phase |-> 1,nu |-> 1187465,nv |-> 226,k |-> 16366,steps |-> 35,n |-> 16381,stuck |-> 0,lastBl |-> 28,v0 |-> 15,u0 |-> 61,v1 |-> -1,u1 |-> 1088,sp |-> -173]),
    ([phase |-> 1,nu |-> 1187345,nv |-> 226,k |-> 16366,steps |-> 36,n |-> 16381,stuck |-> 0,lastBl |-> 28,v0 |-> 15,u0 |-> 76,v1 |-> -1,u1 |-> 1087,sp |-> 53]),
    ([phase |-> 1,nu |-> 1187465,nv |-> 226,k |-> 16366,steps |-> 37,n |-> 16381,stuck |-> 0,lastBl |-> 28,v0 |-> 15,u0 |-> 61,v1 |-> -1,u1 |-> 1088,sp |-> -173]),
    ([phase |-> 1,nu |-> 1187345,nv |-> 226,k |-> 16366,steps |-> 38,n |-> 16381,stuck |-> 0,lastBl |-> 28,v0 |-> 15,u0 |-> 76,v1 |-> -1,u1 |-> 1087,sp |-> 53]),
    ([phase |-> 1,nu |-> 1187465,nv |-> 226,k |-> 16366,steps |-> 39,n |-> 16381,stuck |-> 0,lastBl |-> 28,v0 |-> 15,u0 |-> 61,v1 |-> -1,u1 |-> 1088,sp |-> -173]),
    ([phase |-> 1,nu |-> 1187345,nv |-> 226,k |-> 16366,steps |-> 40,n |-> 16381,stuck |-> 0,lastBl |-> 28,v0 |-> 15,u0 |-> 76,v1 |-> -1,u1 |-> 1087,sp |-> 53]),
    ([phase |-> 1,nu |-> 1187465,nv |-> 226,k |-> 16366,steps |-> 41,n |-> 16381,stuck |-> 0,lastBl |-> 28,v0 |-> 15,u0 |-> 61,v1 |-> -1,u1 |-> 1088,sp |-> -173]),
    ([phase |-> 1,nu |-> 1187345,nv |-> 226,k |-> 16366,steps |-> 42,n |-> 16381,stuck |-> 0,lastBl |-> 28,v0 |-> 15,u0 |-> 76,v1 |-> -1,u1 |-> 1087,sp |-> 53]),
    ([phase |-> 1,nu |-> 1187465,nv |-> 226,k |-> 16366,steps |-> 43,n |-> 16381,stuck |-> 0,lastBl |-> 28,v0 |-> 15,u0 |-> 61,v1 |-> -1,u1 |-> 1088,sp |-> -173]),
    ([phase |-> 1,nu |-> 1187345,nv |-> 226,k |-> 16366,steps |-> 44,n |-> 16381,stuck |-> 0,lastBl |-> 28,v0 |-> 15,u0 |-> 76,v1 |-> -1,u1 |-> 1087,sp |-> 53]),
    ([phase |-> 1,nu |-> 1187465,nv |-> 226,k |-> 16366,steps |-> 45,n |-> 16381,stuck |-> 0,lastBl |-> 28,v0 |-> 15,u0 |-> 61,v1 |-> -1,u1 |-> 1088,sp |-> -173]),
    ([phase |-> 1,nu |-> 1187345,nv |-> 226,k |-> 16366,steps |-> 46,n |-> 16381,stuck |-> 0,lastBl |-> 28,v0 |-> 15,u0 |-> 76,v1 |-> -1,u1 |-> 1087,sp |-> 53]),
    ([phase |-> 1,nu |-> 1187465,nv |-> 226,k |-> 16366,steps |-> 47,n |-> 16381,stuck |-> 0,lastBl |-> 28,v0 |-> 15,u0 |-> 61,v1 |-> -1,u1 |-> 1088,sp |-> -173]),
    ([phase |-> 1,nu |-> 1187345,nv |-> 226,k |-> 16366,steps |-> 48,n |-> 16381,stuck |-> 0,lastBl |-> 28,v0 |-> 15,u0 |-> 76,v1 |-> -1,u1 |-> 1087,sp |-> 53]),
    ([phase |-> 1,nu |-> 1187465,nv |-> 226,k |-> 16366,steps |-> 49,n |-> 16381,stuck |-> 0,lastBl |-> 28,v0 |-> 15,u0 |-> 61,v1 |-> -1,u1 |-> 1088,sp |-> -173]),
    ([phase |-> 1,nu |-> 1187345,nv |-> 226,k |-> 16366,steps |-> 50,n |-> 16381,stuck |-> 0,lastBl |-> 28,v0 |-> 15,u0 |-> 76,v1 |-> -1,u1 |-> 1087,sp |-> 53]),
    ([phase |-> 1,nu |-> 1187465,nv |-> 226,k |-> 16366,steps |-> 51,n |-> 16381,stuck |-> 0,lastBl |-> 28,v0 |-> 15,u0 |-> 61,v1 |-> -1,u1 |-> 1088,sp |-> -173]),
    ([phase |-> 1,nu |-> 1187345,nv |-> 226,k |-> 16366,steps |-> 52,n |-> 16381,stuck |-> 0,lastBl |-> 28,v0 |-> 15,u0 |-> 76,v1 |-> -1,u1 |-> 1087,sp |-> 53]),
    ([phase |-> 1,nu |-> 1187465,nv |-> 226,k |-> 16366,steps |-> 53,n |-> 16381,stuck |-> 0,lastBl |-> 28,v0 |-> 15,u0 |-> 61,v1 |-> -1,u1 |-> 1088,sp |-> -173]),
    ([phase |-> 1,nu |-> 1187345,nv |-> 226,k |-> 16366,steps |-> 54,n |-> 16381,stuck |-> 0,lastBl |-> 28,v0 |-> 15,u0 |-> 76,v1 |-> -1,u1 |-> 1087,sp |-> 53]),
    ([phase |-> 1,nu |-> 1187465,nv |-> 226,k |-> 16366,steps |-> 55,n |-> 16381,stuck |-> 0,lastBl |-> 28,v0 |-> 15,u0 |-> 61,v1 |-> -1,u1 |-> 1088,sp |-> -173]),
    ([phase |-> 1,nu |-> 1187345,nv |-> 226,k |-> 16366,steps |-> 56,n |-> 16381,stuck |-> 0,lastBl |-> 28,v0 |-> 15,u0 |-> 76,v1 |-> -1,u1 |-> 1087,sp |-> 53]),
    ([phase |-> 1,nu |-> 1187465,nv |-> 226,k |-> 16366,steps |-> 57,n |-> 16381,stuck |-> 0,lastBl |-> 28,v0 |-> 15,u0 |-> 61,v1 |-> -1,u1 |-> 1088,sp |-> -173]),
    ([phase |-> 1,nu |-> 1187345,nv |-> 226,k |-> 16366,steps |-> 58,n |-> 16381,stuck |-> 0,lastBl |-> 28,v0 |-> 15,u0 |-> 76,v1 |-> -1,u1 |-> 1087,sp |-> 53]),
    ([phase |-> 1,nu |-> 1187465,nv |-> 226,k |-> 16366,steps |-> 59,n |-> 16381,stuck |-> 0,lastBl |-> 28,v0 |-> 15,u0 |-> 61,v1 |-> -1,u1 |-> 1088,sp |-> -173]),
    ([phase |-> 1,nu |-> 1187345,nv |-> 226,k |-> 16366,steps |-> 60,n |-> 16381,stuck |-> 0,lastBl |-> 28,v0 |-> 15,u0 |-> 76,v1 |-> -1,u1 |-> 1087,sp |-> 53]),
    ([phase |-> 1,nu |-> 1187465,nv |-> 226,k |-> 16366,steps |-> 61,n |-> 16381,stuck |-> 0,lastBl |-> 28,v0 |-> 15,u0 |-> 61,v1 |-> -1,u1 |-> 1088,sp |-> -173]),
    ([phase |-> 1,nu |-> 1187345,nv |-> 226,k |-> 16366,steps |-> 62,n |-> 16381,stuck |-> 0,lastBl |-> 28,v0 |-> 15,u0 |-> 76,v1 |-> -1,u1 |-> 1087,sp |-> 53]),
    ([phase |-> 1,nu |-> 1187465,nv |-> 226,k |-> 16366,steps |-> 63,n |-> 16381,stuck |-> 0,lastBl |-> 28,v0 |-> 15,u0 |-> 61,v1 |-> -1,u1 |-> 1088,sp |-> -173]),
    ([phase |-> 1,nu |-> 1187345,nv |-> 226,k |-> 16366,steps |-> 64,n |-> 16381,stuck |-> 0,lastBl |-> 28,v0 |-> 15,u0 |-> 76,v1 |-> -1,u1 |-> 1087,sp |-> 53]),
    ([phase |-> 1,nu |-> 1187465,nv |-> 226,k |-> 16366,steps |-> 65,n |-> 16381,stuck |-> 0,lastBl |-> 28,v0 |-> 15,u0 |-> 61,v1 |-> -1,u1 |-> 1088,sp |-> -173])
    >>
----


=============================================================================

---- CONFIG AlgLagrange_TTrace_1790981758 ----
CONSTANTS
    Moduli = { 16381 , 16369 , 12289 , 9973 , 16127 }
    L2 = 20
    MaxBitLen = 7
    MaxSteps = 64
    FixFirstLoop = FALSE

INVARIANT
    _inv

CHECK_DEADLOCK
    \* CHECK_DEADLOCK off because of PROPERTY or INVARIANT above.
    FALSE

INIT
    _init

NEXT
    _next

CONSTANT
    _TETrace <- _trace

ALIAS
    _expression
=============================================================================
\* Generated on Fri Oct 02 22:56:10 UTC 2026