------------------------------- MODULE AlgXSeq -------------------------------
(***************************************************************************)
(* Design-level model of p256::Point::x_sequence_vartime (the x-only       *)
(* differential sequences behind truncated ECDSA verification, C13):       *)
(* given x(P0), x(P1), x(Q) with Q = P1 - P0 it produces x(P0 + i*Q) for   *)
(* i = 0..n+1, in batches, with the convention x = 1 for the point at      *)
(* infinity.  The function is a case analysis                              *)
(*     Q = inf | P_i = inf | P_(i+1) = inf | x(P_i) = 0 | general          *)
(* over fractions X/Z (Z = 0 for infinity).  One action per loop           *)
(* iteration, one disjunct per branch of the code, in the order of the     *)
(* code.  On the toy curve y^2 = x^3 - 3x + 4 over GF(29) (31 points,      *)
(* prime order, two points with x = 0, no point with x = 1 -- the three    *)
(* facts about P-256 the code relies on) TLC enumerates EVERY pair         *)
(* (P0, P1) and every length up to more than a full turn of the group, so  *)
(* every branch is taken in every position, including two branches in      *)
(* consecutive iterations.                                                 *)
(* The batching (at most Cap values per batch, two more slots for the two  *)
(* trailing outputs in the last batch, arrays of ArrLen slots) is modelled *)
(* with small numbers; InBounds is the index-safety obligation.            *)
(***************************************************************************)
EXTENDS Integers, Sequences, FiniteSets, TLC

CONSTANTS NMax,            \* largest requested length
          Cap, ArrLen,     \* batch capacity and array length (code: 198 and 200)
          SkipX0Case,      \* TRUE: never take the x(P_i) = 0 branch   (demonstrates that the branch is needed)
          X0CaseFirst      \* TRUE: test x(P_i) = 0 before P_(i+1) = inf (demonstrates that the order matters)

WP == 29
WB == 4
Inf == <<-1, -1>>
Inv(x) == CHOOSE y \in 0..(WP - 1) : (x * y) % WP = 1 % WP
Points == {Inf} \cup {pt \in (0..(WP - 1)) \X (0..(WP - 1)) :
                        (pt[2] * pt[2]) % WP = (pt[1] * pt[1] * pt[1] - 3 * pt[1] + WB) % WP}
Neg(A) == IF A = Inf THEN Inf ELSE <<A[1], (0 - A[2]) % WP>>
Add(A, Bp) ==
    IF A = Inf THEN Bp ELSE IF Bp = Inf THEN A
    ELSE IF A[1] = Bp[1] /\ (A[2] + Bp[2]) % WP = 0 THEN Inf
    ELSE LET lam == IF A = Bp THEN ((3 * A[1] * A[1] - 3) * Inv((2 * A[2]) % WP)) % WP
                    ELSE ((Bp[2] - A[2]) * Inv((Bp[1] - A[1]) % WP)) % WP
             x3 == (lam * lam - A[1] - Bp[1]) % WP
         IN <<x3, (lam * (A[1] - x3) - A[2]) % WP>>
\* interface convention: 1 stands for the point at infinity
XOf(A) == IF A = Inf THEN 1 ELSE A[1]

VARIABLES p0, q,          \* the (hidden) points: P_0 and Q -- used only by the invariants
          n,              \* requested length
          i,              \* index of the value held in (X0, Z0)
          X0, Z0, X1, Z1, \* x(P_i) = X0/Z0, x(P_(i+1)) = X1/Z1
          j, blen,        \* position in the current batch, its length
          pc, branch
vars == <<p0, q, n, i, X0, Z0, X1, Z1, j, blen, pc, branch>>

xq == XOf(q)
Min(a, b) == IF a < b THEN a ELSE b

Init == /\ p0 \in Points /\ q \in Points /\ n \in 0..NMax
        /\ i = 0 /\ j = 0 /\ branch = "-"
        /\ X0 = XOf(p0) /\ Z0 = (IF XOf(p0) = 1 THEN 0 ELSE 1)
        /\ X1 = XOf(Add(p0, q)) /\ Z1 = (IF XOf(Add(p0, q)) = 1 THEN 0 ELSE 1)
        /\ blen = Min(n, Cap)
        /\ pc = (IF n = 0 \/ XOf(q) = 1 THEN "done" ELSE "step")

\* the four branches, as in the code
Dbl == <<((xq * xq + 3) * (xq * xq + 3) - 8 * WB * xq) % WP, (4 * ((xq * xq - 3) * xq + WB)) % WP>>
XAdd == LET C == (xq * Z1) % WP   D == (X1 * xq) % WP   E == ((X1 + C) * Z1) % WP
            F == ((D + 3 * Z1) * (D + 3 * Z1)) % WP   G == (E * 4 * WB) % WP   H == ((X1 - C) * (X1 - C)) % WP
        IN <<(Z0 * (F - G)) % WP, (X0 * H) % WP>>
XAddSpec == LET C == (X1 * xq) % WP   D == (xq * Z1) % WP   E == (Z1 * Z1) % WP
                F == ((C - 3 * Z1) * (X1 + D)) % WP   G == (E * 2 * WB) % WP
            IN <<(2 * (F + G)) % WP, ((X1 - D) * (X1 - D)) % WP>>

Choose(which, val) == /\ branch' = which /\ X1' = val[1] /\ Z1' = val[2]
Step ==
    /\ pc = "step"
    /\ j < blen
    /\ IF Z0 = 0 THEN Choose("P_i=inf", Dbl)
       ELSE IF X0CaseFirst /\ ~SkipX0Case /\ X0 = 0 THEN Choose("x(P_i)=0", XAddSpec)
       ELSE IF Z1 = 0 THEN Choose("P_i+1=inf", <<xq, 1>>)
       ELSE IF ~SkipX0Case /\ X0 = 0 THEN Choose("x(P_i)=0", XAddSpec)
       ELSE Choose("general", XAdd)
    /\ X0' = X1 /\ Z0' = Z1
    /\ i' = i + 1 /\ j' = j + 1
    /\ UNCHANGED <<p0, q, n, blen, pc>>
\* end of a batch: normalisation (not modelled arithmetically: X/Z is what the invariants read),
\* then the next batch or the end
NextBatch ==
    /\ pc = "step" /\ j = blen
    /\ IF i = n THEN pc' = "done" /\ UNCHANGED <<blen, j>>
       ELSE pc' = "step" /\ blen' = Min(n - i, Cap) /\ j' = 0
    /\ UNCHANGED <<p0, q, n, i, X0, Z0, X1, Z1, branch>>
Next == Step \/ NextBatch
Spec == Init /\ [][Next]_vars /\ WF_vars(Next)

(* ------------------------------ properties ------------------------------ *)
RECURSIVE Mul(_, _)
Mul(k, A) == IF k = 0 THEN Inf ELSE Add(Mul(k - 1, A), A)
Pt(k) == Add(p0, Mul(k, q))
\* X/Z represents x(A): Z = 0 exactly for infinity, else X = x*Z
Repr(X, Z, A) == IF A = Inf THEN Z = 0 ELSE Z # 0 /\ X = (A[1] * Z) % WP
\* the loop invariant: the two running fractions are x(P_i) and x(P_(i+1))
Tracks == pc = "step" => Repr(X0, Z0, Pt(i)) /\ Repr(X1, Z1, Pt(i + 1))
\* what is returned: with Q = inf or n = 0 the code returns before the loop; otherwise the final fractions
Result == pc = "done" /\ n > 0 /\ XOf(q) # 1 => Repr(X0, Z0, Pt(n)) /\ Repr(X1, Z1, Pt(n + 1))
\* index safety of the batch arrays: slot j is written in the loop; the final batch also writes blen and blen + 1
InBounds == /\ (pc = "step" /\ j < blen => j < ArrLen)
            /\ (pc = "step" /\ j = blen /\ i = n => blen + 1 < ArrLen)
\* facts about the curve the code relies on
CurveFacts == /\ Cardinality(Points) = 31
              /\ \A A \in Points : A # Inf => A[1] # 1 /\ A[2] # 0
              /\ \E A \in Points : A # Inf /\ A[1] = 0
Terminates == <>(pc = "done")
=============================================================================
