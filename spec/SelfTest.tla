------------------------------ MODULE SelfTest ------------------------------
(***************************************************************************)
(* TLC compares every overridden BigNat operator with its pure TLA+        *)
(* definition on boundary values and pseudo-random operands (one state per *)
(* operand pair).  Run with the overrides loaded; a failure here is a tool *)
(* error (exit 2), never a VIOLATION.                                      *)
(***************************************************************************)
EXTENDS BigNat, Naturals, Sequences, TLC

VARIABLES i, x

\* ZX81-style LCG over 0..65536, all intermediate values < 2^31
Lcg(s) == (s * 75 + 74) % 65537

RECURSIVE RandBytes(_, _)
RandBytes(s, n) == IF n = 0 THEN <<>> ELSE <<Lcg(s) % 256>> \o RandBytes(Lcg(s), n - 1)

Ones(n) == [k \in 1..n |-> 255]
Fixed == << <<>>, <<1>>, <<2>>, <<255>>, <<0, 1>>, <<255, 255>>, Ones(8), Ones(16), Ones(32),
            <<0,0,0,0,0,0,0,0,1>>, [k \in 1..32 |-> IF k = 32 THEN 128 ELSE 0],
            <<237>> \o [k \in 1..30 |-> 255] \o <<127>>,     \* 2^255 - 19
            <<236>> \o [k \in 1..30 |-> 255] \o <<127>>,
            <<0, 0, 1, 0, 0, 0, 0, 0, 128>>, <<3, 0, 0, 0, 0>> >>
NF == Len(Fixed)
NR == 24
Operand(k) == IF k <= NF THEN Fixed[k] ELSE RandBytes(k * 7 + 1, 1 + (Lcg(k) % 20))
N == NF + NR

\* pair index -> operands
A(n) == Operand(1 + (n % N))
B(n) == Operand(1 + ((n * 7 + (n \div N)) % N))
\* a modulus that is odd and nonzero
M(n) == LET c == Operand(1 + ((n * 5 + 3) % N)) IN Add(Mul(c, <<2>>), <<1>>)
K(n) == (n * 13) % 70
W(n) == IF n % 3 = 0 THEN 32 ELSE IF n % 3 = 1 THEN 64 ELSE 13

\* operands for the division-based operators are cut to 6 bytes: their pure
\* definitions are quadratic bit-serial loops (4 s per 256-bit ModMul in TLC)
Cut(v) == SubSeq(v, 1, IF Len(v) < 6 THEN Len(v) ELSE 6)

Check(n) ==
  LET a == A(n)  b == B(n)  k == K(n)  w == W(n)
      sa == Cut(a)  sb == Cut(b)  sm == Add(Mul(Cut(M(n)), <<2>>), <<1>>) IN
  /\ Norm(a) = NormPure(a)
  /\ Add(a, b) = AddPure(a, b)
  /\ Sub(a, b) = SubPure(a, b)
  /\ Mul(a, b) = MulPure(a, b)
  /\ Lt(a, b) = LtPure(a, b)
  /\ BitLen(a) = BitLenPure(a)
  /\ Bit(a, k) = BitPure(a, k)
  /\ BitXor(a, b) = BitXorPure(a, b)
  /\ BitAnd(a, b) = BitAndPure(a, b)
  /\ BitOr(a, b) = BitOrPure(a, b)
  /\ FromInt(n * 1000 + k) = FromIntPure(n * 1000 + k)
  /\ (Len(Norm(a)) <= 3 => ToInt(a) = ToIntPure(a))
  /\ SubPure(AddPure(a, b), b) = NormPure(a)
  /\ Div(sa, sb) = DivPure(sa, sb)
  /\ Mod(sa, sb) = ModPure(sa, sb)
  /\ (n % 6 = 0 => Div(a, sb) = DivPure(a, sb) /\ Mod(a, sb) = ModPure(a, sb))
  /\ ModAdd(sa, sb, sm) = ModAddPure(sa, sb, sm)
  /\ ModSub(sa, sb, sm) = ModSubPure(sa, sb, sm)
  /\ ModMul(sa, sb, sm) = ModMulPure(sa, sb, sm)
  /\ ModPow(sa, LowBits(sb, 12), sm) = ModPowPure(sa, LowBits(sb, 12), sm)
  /\ ModInv(sa, sm) = ModInvPure(sa, sm)
  /\ Shl(a, k) = ShlPure(a, k)
  /\ Shr(sa, k) = ShrPure(sa, k)
  /\ LowBits(sa, k) = LowBitsPure(sa, k)
  /\ RotR(sa, k, w) = RotRPure(sa, k, w)
  /\ ClMul(sa, sb) = ClMulPure(sa, sb)
  /\ PolyMod(sa, sm) = PolyModPure(sa, sm)
  /\ PolyDiv(sa, sm) = PolyDivPure(sa, sm)
  /\ PolyInvMod(sa, <<131>>) = PolyInvModPure(sa, <<131>>)      \* modulo z^7 + z + 1
  /\ Tup(XorV(<<a, b>>, <<b, sa>>)) = Tup(XorVPure(<<a, b>>, <<b, sa>>))
  /\ Tup(AndV(<<a, b>>, <<b, sa>>)) = Tup(AndVPure(<<a, b>>, <<b, sa>>))
  /\ Tup(NotV(<<sa, sb>>, 64)) = Tup(NotVPure(<<sa, sb>>, 64))
  /\ Tup(RotLV(<<sa, sb>>, <<k, 3>>, 64)) = Tup(RotLVPure(<<sa, sb>>, <<k, 3>>, 64))
  \* algebraic sanity of the pure definitions themselves
  /\ (~IsZero(sb) => AddPure(MulPure(DivPure(sa, sb), sb), ModPure(sa, sb)) = NormPure(sa))
  /\ (ModInvPure(sa, sm) # <<>> => ModMulPure(sa, ModInvPure(sa, sm), sm) = ModPure(<<1>>, sm))
  /\ BitXorPure(PolyModPure(sa, sm), ClMulPure(PolyDivPure(sa, sm), sm)) = NormPure(sa)

Total == N * 8

Init == i = 0 /\ x = TRUE
Next == i < Total /\ i' = i + 1 /\ x' = Check(i)
Spec == Init /\ [][Next]_<<i, x>>
Ok == x = TRUE
=============================================================================
