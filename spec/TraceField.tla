----------------------------- MODULE TraceField -----------------------------
(***************************************************************************)
(* Trace specification of the field register machine (C01, C05, C11, C12,  *)
(* C20 and the field part of C18/C19).                                     *)
(*                                                                         *)
(* State: the current type `ty` and a register file `regs` of abstract     *)
(* field values (BigNat in 0..q-1).  Each line of the recorded trace is    *)
(* one public crrl call; the matching action computes what PrimeField      *)
(* says the call must return, compares every logged observation with it    *)
(* and updates the registers with the *specified* value.  An event whose   *)
(* observations differ (or that panicked / timed out) is reported with     *)
(* a MISMATCH line; the run continues so that the rest of the trace is     *)
(* still checked.                                                          *)
(***************************************************************************)
EXTENDS PrimeField, Fields, Integers, Sequences, TLC, Json, IOUtils

Rec == ndJsonDeserialize(IOEnv.TRACE)
N == Len(Rec)

VARIABLES l, ty, regs
vars == <<l, ty, regs>>

NREG == 12
e == Rec[l]
P == FieldTable[ty]
q == P.q
R(i) == regs[i]
Has(f) == f \in DOMAIN e
OutOf(v) == Enc(P.olen, v)

\* report, never block
Chk(ok) == IF ok THEN TRUE ELSE PrintT(<<"MISMATCH", l, e.op>>)

Advance(newregs, ok) ==
    /\ Chk(ok)
    /\ l' = l + 1
    /\ regs' = newregs
    /\ UNCHANGED ty
Put(v) == [regs EXCEPT ![e.dst] = v]
\* a register-writing call: observation `out` must be the encoding of v
Write(v) == Advance(Put(v), Has("out") /\ e.out = OutOf(v))
Observe(ok) == Advance(regs, ok)
Is(op) == l <= N /\ e.op = op
Status(b) == IF b THEN "ones" ELSE "zero"
IntOf(n) == FromInt(n)

Init == l = 1 /\ ty = "GF25519" /\ regs = [i \in 0..(NREG - 1) |-> Zero]

DoInit == /\ Is("init")
          /\ Chk(e.ty \in DOMAIN FieldTable)
          /\ l' = l + 1 /\ ty' = e.ty
          /\ regs' = [i \in 0..(NREG - 1) |-> Zero]

(* ---- constructors ---- *)
DoRaw     == Is("raw") /\ Write(Mod(FromBytesLE(e.b), q))
DoFromInt == Is("fromint") /\ Write(FFromSigned(q, e.neg, FromBytesLE(e.mag)))
DoConst   == Is("const") /\ Write(CASE e.name = "ZERO" -> Zero
                                    [] e.name = "ONE" -> One
                                    [] OTHER -> FNeg(q, One))

(* ---- ring operations (C01) ---- *)
DoAdd == Is("add") /\ Write(FAdd(q, R(e.a), R(e.b)))
DoSub == Is("sub") /\ Write(FSub(q, R(e.a), R(e.b)))
DoMul == Is("mul") /\ Write(FMul(q, R(e.a), R(e.b)))
DoNeg == Is("neg") /\ Write(FNeg(q, R(e.a)))
DoSquare == Is("square") /\ Write(FSq(q, R(e.a)))
DoXSquare == Is("xsquare") /\ Write(FXSq(q, R(e.a), e.n))
DoHalf == Is("half") /\ Write(FHalf(q, R(e.a)))
MulKOps == [mul2 |-> 2, mul3 |-> 3, mul4 |-> 4, mul8 |-> 8, mul16 |-> 16,
            mul32 |-> 32, mul21 |-> 21]
DoMulK == /\ l <= N /\ e.op \in DOMAIN MulKOps
          /\ Write(FMulK(q, R(e.a), IntOf(MulKOps[e.op])))
DoMulSmall == Is("mul_small") /\ Write(FMulK(q, R(e.a), FromBytesLE(e.k)))

(* ---- division, inversion, Legendre, square roots (C12) ---- *)
DoDiv == Is("div") /\ Write(FDiv(q, R(e.a), R(e.b)))
DoInvert == Is("invert") /\ Write(FInv(q, R(e.a)))
DoBatchInvert ==
    /\ Is("batch_invert")
    /\ LET n == Len(e.rs)
           inv == [i \in 1..n |-> FInv(q, R(e.rs[i]))]
       IN Advance([r \in DOMAIN regs |->
                     IF \E i \in 1..n : e.rs[i] = r
                     THEN inv[CHOOSE i \in 1..n : e.rs[i] = r] ELSE regs[r]],
                  /\ Has("outs") /\ Len(e.outs) = n
                  /\ \A i \in 1..n : e.outs[i] = OutOf(inv[i]))
\* long slices: element i (0-based) is register i mod NREG, or zero at the listed positions
DoBatchLong ==
    /\ Is("batch_long")
    /\ LET val(i) == IF \E k \in 1..Len(e.zs) : e.zs[k] = i THEN Zero ELSE R(i % NREG)
       IN Observe(/\ Has("outs") /\ Len(e.outs) = e.n
                  /\ \A i \in 0..(e.n - 1) : e.outs[i + 1] = OutOf(FInv(q, val(i))))
\* GF255 only: product of two "not reduced" intermediate values.  Form f on registers (x1, x2, x3):
\*   0: x1+x2   1: x1-x2   2: 2*x1   3: 2*x1+x2   4: 2*x1-x2   5: x1+x2   6: x1+x2-x3   7: x1-x2   8: x1-x2+2*x3
NrForm(f, r) ==
    LET x1 == R(r[1])  x2 == R(r[2])  x3 == R(r[3])  d == FAdd(q, x1, x1)
    IN CASE f = 0 -> FAdd(q, x1, x2) [] f = 1 -> FSub(q, x1, x2) [] f = 2 -> d
         [] f = 3 -> FAdd(q, d, x2) [] f = 4 -> FSub(q, d, x2)
         [] f = 5 -> FAdd(q, x1, x2) [] f = 6 -> FSub(q, FAdd(q, x1, x2), x3)
         [] f = 7 -> FSub(q, x1, x2) [] OTHER -> FAdd(q, FSub(q, x1, x2), FAdd(q, x3, x3))
DoNrMul == Is("nrmul")
           /\ LET a == NrForm(e.f, e.xs)
              IN Write(CASE e.v = 0 -> FMul(q, a, NrForm(e.g, e.ys))
                         [] e.v = 3 -> FSq(q, a)
                         [] OTHER -> FMul(q, a, R(e.ys[1])))
DoLegendre == Is("legendre") /\ Observe(Has("res") /\ e.res = Legendre(q, R(e.a)))

\* square roots are checked relationally on the returned element
SqrtOk(x, r, st, ext) ==
    LET sq == IsSquare(q, x) IN
    /\ st = Status(sq)
    /\ Lt(r, q)
    /\ IF sq THEN IsRootOf(q, r, x) /\ IsEven(r)
       ELSE IF ~ext THEN r = Zero
       ELSE /\ IsEven(r)
            /\ IF Bit(q, 1) = 1            \* q = 3 mod 4: a root of -x
               THEN IsRootOf(q, r, FNeg(q, x))
               ELSE \/ IsRootOf(q, r, FMulK(q, x, Two))    \* q = 5 mod 8
                    \/ IsRootOf(q, r, FNeg(q, FMulK(q, x, Two)))
DoSqrt ==
    /\ l <= N /\ e.op \in {"sqrt", "sqrt_ext"}
    /\ IF Has("out") /\ Has("st") /\ Len(e.out) = P.olen
       THEN LET r == FromBytesLE(e.out)
            IN Advance(Put(IF Lt(r, q) THEN r ELSE Zero),
                       SqrtOk(R(e.a), r, e.st, e.op = "sqrt_ext"))
       ELSE Advance(regs, FALSE)

(* ---- observations and codec (C05, C20) ---- *)
DoEncode == Is("encode") /\ Observe(/\ Has("out") /\ e.out = OutOf(R(e.a))
                                    /\ (Has("out32") => e.out32 = Enc(32, R(e.a))))
DoEquals == Is("equals") /\ Observe(Has("st") /\ e.st = Status(R(e.a) = R(e.b)))
DoIsZero == Is("iszero") /\ Observe(Has("st") /\ e.st = Status(R(e.a) = Zero))

StrictLen == IF e.op = "decode32" THEN 32 ELSE P.len
DoDecodeCt ==
    /\ l <= N /\ e.op \in {"decode_ct", "decode32"}
    /\ LET ok == DecStrictOk(q, StrictLen, e["in"])
           v  == DecStrictVal(q, StrictLen, e["in"])
       IN Advance(Put(v), Has("out") /\ Has("st") /\ e.st = Status(ok) /\ e.out = OutOf(v))
DoDecode ==
    /\ Is("decode")
    /\ LET ok == DecStrictOk(q, P.len, e["in"])
           v  == DecStrictVal(q, P.len, e["in"])
       IN IF ok THEN Advance(Put(v), Has("some") /\ e.some = TRUE /\ Has("out") /\ e.out = OutOf(v))
          ELSE Advance(regs, Has("some") /\ e.some = FALSE)
DoDecodeReduce == Is("decode_reduce") /\ Write(DecReduce(q, e["in"]))

CtlOk == Has("ctl") /\ e.ctl \in {"ones", "zero"}
DoSetCond == Is("set_cond") /\ CtlOk
             /\ Write(IF e.ctl = "ones" THEN R(e.a) ELSE R(e.dst))
DoSelect == Is("select") /\ CtlOk
            /\ Write(IF e.ctl = "ones" THEN R(e.a1) ELSE R(e.a0))
DoCSwap == /\ Is("cswap") /\ CtlOk
           /\ LET x == IF e.ctl = "ones" THEN R(e.b) ELSE R(e.a)
                  y == IF e.ctl = "ones" THEN R(e.a) ELSE R(e.b)
              IN Advance([regs EXCEPT ![e.a] = x, ![e.b] = y],
                         /\ Has("outa") /\ Has("outb")
                         /\ e.outa = OutOf(x) /\ e.outb = OutOf(y))

\* constant-time lookup of `width` consecutive entries in a table of 16*width registers;
\* range-checked: all-zero entries when the (32-bit) index is not in 0..15
DoLookup16 ==
    /\ Is("lookup16")
    /\ LET jj == FromBytesLE(e.j)
           inr == Lt(jj, IntOf(16))
           j == IF inr THEN ToInt(jj) ELSE 0
       IN Observe(/\ Has("outs") /\ Len(e.outs) = e.width /\ Len(e.rs) = 16 * e.width
                  /\ \A i \in 1..e.width :
                        e.outs[i] = OutOf(IF inr THEN R(e.rs[e.width * j + i]) ELSE Zero))

(* ---- scalar splitting (C11): relational, with the documented correction ---- *)
T128 == Pow2(128)
Corr(c, a) == \* c + a*2^128 modulo q, a a small TLC integer
    IF a >= 0 THEN FAdd(q, c, FMulK(q, Mod(T128, q), IntOf(a)))
    ELSE FSub(q, c, FMulK(q, Mod(T128, q), IntOf(0 - a)))
SplitOk ==
    LET k  == R(e.a)
        c0 == SVal(q, e.n0, FromBytesLE(e.m0))
        c1 == SVal(q, e.n1, FromBytesLE(e.m1))
        m  == IF e.w = 128 THEN SplitM(q) ELSE 0
    IN /\ BitLen(FromBytesLE(e.m0)) <= e.w /\ BitLen(FromBytesLE(e.m1)) <= e.w
       /\ IF k = Zero THEN FromBytesLE(e.m0) = Zero /\ FromBytesLE(e.m1) = One /\ ~e.n1
          ELSE \E a \in (0 - m)..m, b \in (0 - m)..m :
                  /\ Corr(c1, b) # Zero
                  /\ FMul(q, k, Corr(c1, b)) = Corr(c0, a)
DoSplit == Is("split") /\ Observe(Has("m0") /\ Has("m1") /\ SplitOk)

Next ==
    \/ DoInit \/ DoRaw \/ DoFromInt \/ DoConst
    \/ DoAdd \/ DoSub \/ DoMul \/ DoNeg \/ DoSquare \/ DoXSquare \/ DoHalf
    \/ DoMulK \/ DoMulSmall
    \/ DoDiv \/ DoInvert \/ DoBatchInvert \/ DoBatchLong \/ DoNrMul \/ DoLegendre \/ DoSqrt
    \/ DoEncode \/ DoEquals \/ DoIsZero
    \/ DoDecodeCt \/ DoDecode \/ DoDecodeReduce
    \/ DoSetCond \/ DoSelect \/ DoCSwap \/ DoLookup16
    \/ DoSplit

Spec == Init /\ [][Next]_vars

\* every line consumed: one state per line plus the initial state
Consumed == TLCGet("stats").diameter - 1
TraceDone == PrintT(<<"TRACE_CONSUMED", Consumed, N>>) /\ Consumed = N
=============================================================================
