-------------------------------- MODULE EdDSA -------------------------------
(***************************************************************************)
(* RFC 8032: Ed25519 / Ed25519ctx / Ed25519ph and Ed448 / Ed448ph key      *)
(* derivation, signing and *strict, cofactored* verification:              *)
(*   length 64 (114), R and A canonical encodings of curve points,         *)
(*   S < L, and [c]([S]B - R - [k]A) = neutral with c the cofactor.        *)
(***************************************************************************)
EXTENDS PointCodec, SHA2, Keccak, XDH

\* "SigEd25519 no Ed25519 collisions", "SigEd448"
Dom2Prefix == <<83, 105, 103, 69, 100, 50, 53, 53, 49, 57, 32, 110, 111, 32, 69, 100, 50, 53, 53, 49, 57, 32,
                99, 111, 108, 108, 105, 115, 105, 111, 110, 115>>
Dom4Prefix == <<83, 105, 103, 69, 100, 52, 52, 56>>
\* mode "raw": Ed25519 has no dom2 at all; Ed448 always has dom4
Dom(c448, mode, ctx) ==
    LET f == IF mode = "ph" THEN 1 ELSE 0
    IN IF c448 THEN Dom4Prefix \o <<f, Len(ctx)>> \o ctx
       ELSE IF mode = "raw" THEN <<>> ELSE Dom2Prefix \o <<f, Len(ctx)>> \o ctx

H(c448, m) == IF c448 THEN SHAKE256(m, 114) ELSE SHA512(m)
EC(c448) == IF c448 THEN Ed448 ELSE Ed25519
ELen(c448) == IF c448 THEN 57 ELSE 32
EEnc(c448, P) == EdEncode(EC(c448), ELen(c448), P)
EDec(c448, b) == EdDecode(EC(c448), ELen(c448), b)

\* secret scalar and prefix from the seed
Expand(c448, seed) ==
    LET h == H(c448, seed)
    IN IF c448
       THEN <<Clamp448(SubSeq(h, 1, 56)), SubSeq(h, 58, 114)>>       \* byte 57 of the scalar half is cleared
       ELSE <<Clamp25519(SubSeq(h, 1, 32)), SubSeq(h, 33, 64)>>
PublicKey(c448, seed) == EEnc(c448, MulGen(EC(c448), Expand(c448, seed)[1]))

Sign(c448, mode, seed, ctx, msg) ==
    LET C == EC(c448)
        L == C.n
        ex == Expand(c448, seed)
        A == EEnc(c448, MulGen(C, ex[1]))
        dom == Dom(c448, mode, ctx)
        r == Mod(FromBytesLE(H(c448, dom \o ex[2] \o msg)), L)
        Rb == EEnc(c448, MulGen(C, r))
        k == Mod(FromBytesLE(H(c448, dom \o Rb \o A \o msg)), L)
        S == ModAdd(r, ModMul(k, ex[1], L), L)
    IN Rb \o ToBytesLE(S, ELen(c448))

Verify(c448, mode, pk, sig, ctx, msg) ==
    LET C == EC(c448)
        n == ELen(c448)
    IN /\ Len(sig) = 2 * n
       /\ LET dA == EDec(c448, pk)
              Rb == SubSeq(sig, 1, n)
              dR == EDec(c448, Rb)
              S == FromBytesLE(SubSeq(sig, n + 1, 2 * n))
          IN /\ dA[1] /\ dR[1]
             /\ Lt(S, C.n)
             /\ LET k == Mod(FromBytesLE(H(c448, Dom(c448, mode, ctx) \o Rb \o pk \o msg)), C.n)
                    T == PSub(C, PSub(C, MulGen(C, S), dR[2]), SMul(C, k, dA[2]))
                IN PXDbl(C, T, IF c448 THEN 2 ELSE 3) = TedNeutral
=============================================================================
