-------------------------------- MODULE Frost -------------------------------
(***************************************************************************)
(* FROST (RFC 9591) over the five ciphersuites crrl implements:            *)
(* FROST(Ed25519, SHA-512), FROST(ristretto255, SHA-512),                  *)
(* FROST(Ed448, SHAKE256), FROST(P-256, SHA-256), FROST(secp256k1,         *)
(* SHA-256).  Written from the RFC: serialization, hash functions H1..H5,  *)
(* binding factors, group commitment, Lagrange coefficients, signature     *)
(* shares, aggregation, share and signature verification, and the          *)
(* trusted-dealer split with its VSS verification.                         *)
(***************************************************************************)
EXTENDS Groups, SHA2, Keccak, Integers, Sequences

Suites == {"ed25519", "ristretto255", "ed448", "p256", "secp256k1"}
Ord(s) == ScalarOrder(s)
NS(s) == IF s = "ed448" THEN 57 ELSE 32
NE(s) == CASE s = "ed448" -> 57 [] s \in {"p256", "secp256k1"} -> 33 [] OTHER -> 32

Ascii(str) == str    \* context strings are written as byte tuples below
CtxEd25519 == <<70, 82, 79, 83, 84, 45, 69, 68, 50, 53, 53, 49, 57, 45, 83, 72, 65, 53, 49, 50, 45, 118, 49>>
CtxRist == <<70, 82, 79, 83, 84, 45, 82, 73, 83, 84, 82, 69, 84, 84, 79, 50, 53, 53, 45, 83, 72, 65, 53, 49, 50, 45, 118, 49>>
CtxEd448 == <<70, 82, 79, 83, 84, 45, 69, 68, 52, 52, 56, 45, 83, 72, 65, 75, 69, 50, 53, 54, 45, 118, 49>>
CtxP256 == <<70, 82, 79, 83, 84, 45, 80, 50, 53, 54, 45, 83, 72, 65, 50, 53, 54, 45, 118, 49>>
CtxK1 == <<70, 82, 79, 83, 84, 45, 115, 101, 99, 112, 50, 53, 54, 107, 49, 45, 83, 72, 65, 50, 53, 54, 45, 118, 49>>
Ctx(s) == CASE s = "ed25519" -> CtxEd25519 [] s = "ristretto255" -> CtxRist [] s = "ed448" -> CtxEd448
            [] s = "p256" -> CtxP256 [] s = "secp256k1" -> CtxK1
LRho == <<114, 104, 111>>
LChal == <<99, 104, 97, 108>>
LMsg == <<109, 115, 103>>
LCom == <<99, 111, 109>>
SigEd448 == <<83, 105, 103, 69, 100, 52, 52, 56>>

(* ------------------------------ serialization --------------------------- *)
\* scalars: little-endian for the Edwards-family suites (57 bytes with a zero
\* last byte for Ed448), big-endian for the SEC1 suites
BigEnd(s) == s \in {"p256", "secp256k1"}
ScEnc(s, x) == IF BigEnd(s) THEN ToBytesBE(x, 32) ELSE ToBytesLE(x, NS(s))
\* <<ok, value>>: exact length, canonical (< order), Ed448's pad byte zero
ScDec(s, b) ==
    IF Len(b) # NS(s) THEN <<FALSE, Zero>>
    ELSE LET v == IF BigEnd(s) THEN FromBytesBE(b) ELSE FromBytesLE(b)
         IN IF Lt(v, Ord(s)) THEN <<TRUE, v>> ELSE <<FALSE, Zero>>
\* elements: RFC 8032 / RFC 9496 / SEC1-compressed encodings; the identity is
\* rejected, and for Ed25519 / Ed448 also points outside the prime-order subgroup
PtEnc(s, P) == IF BigEnd(s) THEN GEncodeC(s, P) ELSE GEncode(s, P)
\* strict = FALSE skips the (expensive) subgroup test; it is used where the trace
\* specification only needs the value of an element that the implementation produced
PtDecX(s, b, strict) ==
    IF Len(b) # NE(s) THEN <<FALSE, GNeutral(s)>>
    ELSE LET d == GDecode(s, b)
         IN IF ~d[1] THEN d
            ELSE IF GEq(s, d[2], GNeutral(s)) THEN <<FALSE, GNeutral(s)>>
            ELSE IF strict /\ s \in {"ed25519", "ed448"} /\ GMul(s, Ord(s), d[2]) # GNeutral(s)
                 THEN <<FALSE, GNeutral(s)>>
            ELSE d
PtDec(s, b) == PtDecX(s, b, TRUE)

(* ------------------------------ hash functions -------------------------- *)
\* hash_to_field with expand_message_xmd (SHA-256), one field element, L = 48
XorB(a, b) == [i \in 1..Len(a) |-> ToInt(BitXor(<<a[i]>>, <<b[i]>>))]
HashToFieldXmd(s, label, msg) ==
    LET dst == Ctx(s) \o label
        dstp == dst \o <<Len(dst)>>
        zpad == [i \in 1..64 |-> 0]
        b0 == SHA256(zpad \o msg \o <<0, 48>> \o <<0>> \o dstp)
        b1 == SHA256(b0 \o <<1>> \o dstp)
        b2 == SHA256(Tup(XorB(b0, b1)) \o <<2>> \o dstp)
    IN Mod(FromBytesBE(SubSeq(b1 \o b2, 1, 48)), Ord(s))
Wide(s, m) == IF s = "ed448" THEN SHAKE256(m, 114) ELSE SHA512(m)
H1(s, m) == IF BigEnd(s) THEN HashToFieldXmd(s, LRho, m)
            ELSE Mod(FromBytesLE(Wide(s, Ctx(s) \o LRho \o m)), Ord(s))
\* challenge hash: compatible with RFC 8032 for the two Edwards suites
H2(s, m) == CASE s = "ed25519" -> Mod(FromBytesLE(SHA512(m)), Ord(s))
              [] s = "ed448" -> Mod(FromBytesLE(SHAKE256(SigEd448 \o <<0, 0>> \o m, 114)), Ord(s))
              [] s = "ristretto255" -> Mod(FromBytesLE(SHA512(Ctx(s) \o LChal \o m)), Ord(s))
              [] OTHER -> HashToFieldXmd(s, LChal, m)
H4(s, m) == IF BigEnd(s) THEN SHA256(Ctx(s) \o LMsg \o m) ELSE Wide(s, Ctx(s) \o LMsg \o m)
H5(s, m) == IF BigEnd(s) THEN SHA256(Ctx(s) \o LCom \o m) ELSE Wide(s, Ctx(s) \o LCom \o m)

(* ------------------------------ protocol math --------------------------- *)
\* a commitment is a record [id, hid, bnd] of an identifier scalar and two points
RECURSIVE EncList(_, _, _)
EncList(s, L, i) == IF i > Len(L) THEN <<>>
                    ELSE ScEnc(s, L[i].id) \o PtEnc(s, L[i].hid) \o PtEnc(s, L[i].bnd) \o EncList(s, L, i + 1)
BindingFactor(s, gpkEnc, L, msg, id) ==
    H1(s, gpkEnc \o H4(s, msg) \o H5(s, EncList(s, L, 1)) \o ScEnc(s, id))
RECURSIVE GroupCommitmentRec(_, _, _, _, _)
GroupCommitmentRec(s, gpkEnc, L, msg, i) ==
    IF i > Len(L) THEN GNeutral(s)
    ELSE GAdd(s, GAdd(s, L[i].hid, GMul(s, BindingFactor(s, gpkEnc, L, msg, L[i].id), L[i].bnd)),
              GroupCommitmentRec(s, gpkEnc, L, msg, i + 1))
GroupCommitment(s, gpkEnc, L, msg) == GroupCommitmentRec(s, gpkEnc, L, msg, 1)
Challenge(s, R, gpkEnc, msg) == H2(s, PtEnc(s, R) \o gpkEnc \o msg)
\* Lagrange coefficient of identifier x for the participant list L (at 0)
RECURSIVE LagNum(_, _, _, _)
LagNum(s, x, L, i) == IF i > Len(L) THEN One
                      ELSE IF L[i].id = x THEN LagNum(s, x, L, i + 1)
                      ELSE ModMul(L[i].id, LagNum(s, x, L, i + 1), Ord(s))
RECURSIVE LagDen(_, _, _, _)
LagDen(s, x, L, i) == IF i > Len(L) THEN One
                      ELSE IF L[i].id = x THEN LagDen(s, x, L, i + 1)
                      ELSE ModMul(ModSub(L[i].id, x, Ord(s)), LagDen(s, x, L, i + 1), Ord(s))
Lambda(s, x, L) == ModMul(LagNum(s, x, L, 1), ModInv(LagDen(s, x, L, 1), Ord(s)), Ord(s))

\* the commitment list a signer / verifier may work on: at least two entries,
\* strictly increasing identifiers (hence no duplicates)
ListOk(L) == Len(L) >= 2 /\ \A i \in 1..(Len(L) - 1) : Lt(L[i].id, L[i + 1].id)
InList(L, id) == \E i \in 1..Len(L) : L[i].id = id
Entry(L, id) == L[CHOOSE i \in 1..Len(L) : L[i].id = id]

\* signature share of signer (id, sk) with nonces (hn, bn)
SignShare(s, gpkEnc, L, msg, id, sk, hn, bn) ==
    LET rho == BindingFactor(s, gpkEnc, L, msg, id)
        c == Challenge(s, GroupCommitment(s, gpkEnc, L, msg), gpkEnc, msg)
        n == Ord(s)
    IN ModAdd(ModAdd(hn, ModMul(bn, rho, n), n), ModMul(ModMul(Lambda(s, id, L), sk, n), c, n), n)
\* share verification equation: z*G = (hid + rho*bnd) + (c*lambda)*PK
ShareOk(s, gpkEnc, L, msg, id, z, PK) ==
    /\ InList(L, id)
    /\ LET e == Entry(L, id)
           rho == BindingFactor(s, gpkEnc, L, msg, id)
           c == Challenge(s, GroupCommitment(s, gpkEnc, L, msg), gpkEnc, msg)
           rhs == GAdd(s, GAdd(s, e.hid, GMul(s, rho, e.bnd)),
                       GMul(s, ModMul(c, Lambda(s, id, L), Ord(s)), PK))
       IN GEq(s, GMul(s, z, GBase(s)), rhs)
\* group signature (R, z): z*G = R + c*PK, cofactored on the Edwards curves
CofS(s, P) == CASE s = "ed25519" -> PXDbl(Ed25519, P, 3) [] s = "ed448" -> PXDbl(Ed448, P, 2) [] OTHER -> P
SigOk(s, gpkEnc, PK, R, z, msg) ==
    LET c == Challenge(s, R, gpkEnc, msg)
    IN GEq(s, CofS(s, GMul(s, z, GBase(s))), CofS(s, GAdd(s, R, GMul(s, c, PK))))

\* VSS: share (id, sk) is consistent with commitment <<C_0 .. C_{t-1}>>: sk*G = sum id^j * C_j
RECURSIVE VssEval(_, _, _, _, _)
VssEval(s, vss, id, j, pw) ==
    IF j > Len(vss) THEN GNeutral(s)
    ELSE GAdd(s, GMul(s, pw, vss[j]), VssEval(s, vss, id, j + 1, ModMul(pw, id, Ord(s))))
VssOk(s, vss, id, sk) == GEq(s, GMul(s, sk, GBase(s)), VssEval(s, vss, id, 1, One))
=============================================================================
