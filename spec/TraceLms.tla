------------------------------ MODULE TraceLms ------------------------------
(***************************************************************************)
(* Trace specification for LMS (C16).  The key state is the leaf counter   *)
(* and the set of issued (signature, message) pairs.  A sign call must     *)
(* return the signature of exactly the current leaf and leave the counter  *)
(* advanced -- also when the RNG fails inside the call; after 2^h leaves    *)
(* it returns nothing.  Verification must accept exactly the issued pairs. *)
(* Events flagged "deep" are recomputed with RFC 8554 Algorithm 6a and the *)
(* Appendix A key derivation in TLC.                                       *)
(***************************************************************************)
EXTENDS Lms, Integers, TLC, Json, IOUtils

Rec == ndJsonDeserialize(IOEnv.TRACE)
N == Len(Rec)
VARIABLES l, set, keys
vars == <<l, set, keys>>
e == Rec[l]
Has(f) == f \in DOMAIN e
Is(op) == l <= N /\ e.op = op
Chk(ok) == IF ok THEN TRUE ELSE PrintT(<<"MISMATCH", l, e.op>>)
S == LmsSets[set]
NoKey == [q |-> 0, issued |-> <<>>, I |-> <<>>, seed |-> <<>>, root |-> <<>>]
K == keys[e.key]

Init == l = 1 /\ set = "sha256_m32" /\ keys = [k \in 0..1 |-> NoKey]
DoInit == Is("init") /\ Chk(e.set \in DOMAIN LmsSets)
          /\ l' = l + 1 /\ set' = e.set /\ keys' = [k \in 0..1 |-> NoKey]
DoKeygen == Is("keygen") /\ Chk(~Has("panic")) /\ l' = l + 1 /\ UNCHANGED set
            /\ keys' = [keys EXCEPT ![e.key] = [NoKey EXCEPT !.I = e.I, !.seed = e.seed]]

\* RFC 8554 recomputation of an issued signature: same root as every other signature of
\* the key, and the elements for coefficients 0 and p-1 derive from the seed
Deep(sig, msg, q, root) ==
    LET Cc == SubSeq(sig, 9, 8 + S.n)
        Q == Hh(S, K.I \o U32(q) \o DMESG \o Cc \o msg)
        Qck == Q \o U16(Cksm(Q, 1))
        y(i) == SubSeq(sig, 8 + S.n * (i + 1) + 1, 8 + S.n * (i + 2))
    IN /\ (root # <<>> => CandidateRoot(S, K.I, sig, msg) = root)
       /\ y(0) = SigElement(S, K.I, K.seed, q, 0, Qck[1])
       /\ y(S.p - 1) = SigElement(S, K.I, K.seed, q, S.p - 1, Qck[S.p])

DoSign ==
    /\ Is("sign")
    /\ LET q == K.q
           exhausted == q = NLeaves
           crash == e.rng = "panic"
           deep == Has("deep") /\ ~exhausted /\ ~crash /\ Has("sig")
           newroot == IF deep /\ K.root = <<>> THEN CandidateRoot(S, K.I, e.sig, e.msg) ELSE K.root
       IN /\ Chk(/\ Has("res")
                 \* the counter after the call (Debug view of the private field): advanced by exactly one on a live key,
                 \* also when the RNG fails; untouched on an exhausted key
                 /\ (Has("leaf") => e.leaf = (IF exhausted THEN q ELSE q + 1))
                 /\ IF exhausted THEN e.res = "none"
                    ELSE IF crash THEN e.res = "panic"
                    ELSE /\ e.res = "some" /\ Has("sig") /\ WellFormed(S, e.sig, q)
                         /\ (deep => Deep(e.sig, e.msg, q, K.root)))
          /\ keys' = [keys EXCEPT ![e.key] =
                        [K EXCEPT !.q = IF exhausted THEN q ELSE q + 1,
                                  !.issued = IF ~exhausted /\ ~crash /\ Has("sig")
                                             THEN Append(K.issued, <<e.sig, e.msg>>) ELSE K.issued,
                                  !.root = newroot]]
          /\ l' = l + 1 /\ UNCHANGED set

Issued(k, sig, msg) == \E i \in 1..Len(keys[k].issued) : keys[k].issued[i] = <<sig, msg>>
DoVerify == Is("verify") /\ Chk(Has("res") /\ e.res = Issued(e.key, e.sig, e.msg))
            /\ l' = l + 1 /\ UNCHANGED <<set, keys>>

Next == DoInit \/ DoKeygen \/ DoSign \/ DoVerify
Spec == Init /\ [][Next]_vars
\* state invariant of the key counter, evaluated on every state of every trace
CounterOk == \A k \in 0..1 : keys[k].q <= NLeaves /\ Len(keys[k].issued) <= keys[k].q
Consumed == TLCGet("stats").diameter - 1
TraceDone == PrintT(<<"TRACE_CONSUMED", Consumed, N>>) /\ Consumed = N
=============================================================================
