-------------------------------- MODULE ECDSA -------------------------------
(***************************************************************************)
(* ECDSA over P-256 and secp256k1 as crrl documents it:                    *)
(*  - verification: even length, r and s big-endian halves with surplus    *)
(*    leading bytes zero, both in 1..n-1, x([h/s]G + [r/s]Q) mod n = r,    *)
(*    h = first 32 bytes of the hash (all if shorter), big-endian, mod n   *)
(*  - P-256 nonce: RFC 6979 HMAC-SHA-256 generator, extra randomness       *)
(*    appended as additional input in both keying steps                    *)
(*  - secp256k1 nonce: SHA-512(x LE || h LE || extra), little-endian,      *)
(*    mod n, 0 replaced by 1                                               *)
(***************************************************************************)
EXTENDS PointCodec, SHA2

HashInt(n, hv) == Mod(FromBytesBE(SubSeq(hv, 1, IF Len(hv) < 32 THEN Len(hv) ELSE 32)), n)

(* ------------------------------ HMAC-SHA-256 ---------------------------- *)
XorPad(key, c) == [i \in 1..64 |-> ToInt(BitXor(<<IF i <= Len(key) THEN key[i] ELSE 0>>, <<c>>))]
Hmac(key, m) == LET k0 == IF Len(key) > 64 THEN SHA256(key) ELSE key
                IN SHA256(Tup(XorPad(k0, 92)) \o SHA256(Tup(XorPad(k0, 54)) \o m))

(* ------------------------------- RFC 6979 ------------------------------- *)
\* candidate loop: <<K, V>> -> nonce k with 1 <= k < n (qlen = hlen = 256, one block per candidate)
RECURSIVE Rfc6979Loop(_, _, _, _)
Rfc6979Loop(n, Kk, V, tries) ==
    LET V1 == Hmac(Kk, V)
        k == FromBytesBE(V1)
    IN IF (~IsZero(k) /\ Lt(k, n)) \/ tries = 0 THEN k
       ELSE LET K2 == Hmac(Kk, V1 \o <<0>>) IN Rfc6979Loop(n, K2, Hmac(K2, V1), tries - 1)
Rfc6979(n, x, h, extra) ==
    LET xb == ToBytesBE(x, 32)
        hb == ToBytesBE(h, 32)              \* bits2octets: already reduced mod n
        V0 == [i \in 1..32 |-> 1]
        K0 == [i \in 1..32 |-> 0]
        K1 == Hmac(K0, V0 \o <<0>> \o xb \o hb \o extra)
        V1 == Hmac(K1, V0)
        K2 == Hmac(K1, V1 \o <<1>> \o xb \o hb \o extra)
        V2 == Hmac(K2, V1)
    IN Rfc6979Loop(n, K2, V2, 8)

NonceK1(n, x, h, extra) ==
    LET k == Mod(FromBytesLE(SHA512(ToBytesLE(x, 32) \o ToBytesLE(h, 32) \o extra)), n)
    IN IF IsZero(k) THEN One ELSE k

\* private key: 32 bytes big-endian in 1..n-1
SkOk(C, sk) == Len(sk) = 32 /\ ~IsZero(FromBytesBE(sk)) /\ Lt(FromBytesBE(sk), C.n)
PubOf(C, sk) == Sec1EncodeU(C, MulGen(C, FromBytesBE(sk)))

Sign(C, isK1, sk, hv, extra) ==
    LET n == C.n
        x == FromBytesBE(sk)
        h == HashInt(n, hv)
        k == IF isK1 THEN NonceK1(n, x, h, extra) ELSE Rfc6979(n, x, h, extra)
        r == Mod(MulGen(C, k)[1], n)
        s == ModMul(ModAdd(h, ModMul(x, r, n), n), ModInv(k, n), n)
    IN ToBytesBE(r, 32) \o ToBytesBE(s, 32)

\* big-endian integer of a half with surplus leading bytes required to be zero
HalfOk(b) == \A i \in 1..(Len(b) - 32) : b[i] = 0
Verify(C, pk, sig, hv) ==
    LET n == C.n
        d == Sec1Decode(C, pk)
    IN /\ d[1] /\ ~IsInf(d[2])
       /\ Len(sig) % 2 = 0
       /\ LET hl == Len(sig) \div 2
              rb == SubSeq(sig, 1, hl)
              sb == SubSeq(sig, hl + 1, 2 * hl)
              r == FromBytesBE(rb)
              s == FromBytesBE(sb)
          IN /\ HalfOk(rb) /\ HalfOk(sb)
             /\ ~IsZero(r) /\ Lt(r, n) /\ ~IsZero(s) /\ Lt(s, n)
             /\ LET w == ModInv(s, n)
                    P == PAdd(C, MulGen(C, ModMul(HashInt(n, hv), w, n)), SMul(C, ModMul(r, w, n), d[2]))
                IN ~IsInf(P) /\ Mod(P[1], n) = r
=============================================================================
