------------------------------ MODULE TraceHash -----------------------------
(***************************************************************************)
(* Trace specification for the hash API (C17): every recorded call on a    *)
(* hash instance must be a transition of HashApi and every digest / output *)
(* chunk must equal the standard's function of the abstract message.       *)
(***************************************************************************)
EXTENDS HashApi, Integers, TLC, Json, IOUtils

Rec == ndJsonDeserialize(IOEnv.TRACE)
N == Len(Rec)

VARIABLES l, hs
vars == <<l, hs>>
NSLOT == 6
None == [alg |-> "none", msg |-> <<>>, mode |-> "none", pos |-> 0, key |-> <<>>, outlen |-> 0]

e == Rec[l]
Has(f) == f \in DOMAIN e
Is(op) == l <= N /\ e.op = op
Chk(ok) == IF ok THEN TRUE ELSE PrintT(<<"MISMATCH", l, e.op>>)
Step(newhs, ok) == Chk(ok) /\ l' = l + 1 /\ hs' = newhs
H == hs[e.h]
NoPanic == ~Has("panic")

Init == l = 1 /\ hs = [i \in 0..(NSLOT - 1) |-> None]

\* a new script: all instances dropped
DoInit == Is("init") /\ Step([i \in 0..(NSLOT - 1) |-> None], TRUE)
DoNew == Is("new") /\ Step([hs EXCEPT ![e.h] = Fresh(e.alg, e.key, e.outlen)], NoPanic)
DoUpdate == Is("update") /\ Step([hs EXCEPT ![e.h] = Update(H, e.data)], NoPanic /\ H.mode = "in")
\* SHA-2 and BLAKE2s (verification hooks): the counter moves by whole blocks, the buffer position is unchanged
DoSkip == Is("skip") /\ Step([hs EXCEPT ![e.h] = Skip(H, FromBytesLE(e.blocks))], NoPanic /\ H.mode = "in" /\ CanSkip(H))
DoReset == Is("reset") /\ Step([hs EXCEPT ![e.h] = Reset(H)], NoPanic)
DoClone == Is("clone") /\ Step([hs EXCEPT ![e.h2] = H], NoPanic)
FinalCalls == {"digest", "finalize", "finalize_reset", "finalize_write", "finalize_reset_write"}
DoFinalize == /\ l <= N /\ e.op \in FinalCalls
              /\ Step([hs EXCEPT ![e.h] = AfterFinalize(H, e.op)],
                      Has("out") /\ H.mode = "in" /\ e.out = Digest(H))
\* one-shot functions
DoHash == Is("hash") /\ Step(hs, Has("out") /\ e.out = Digest([Fresh(e.alg, e.key, e.outlen) EXCEPT !.msg = e.data]))
\* SHAKE
DoFlip == Is("flip") /\ Step([hs EXCEPT ![e.h] = Flip(H)], NoPanic /\ H.mode = "in")
DoExtract == Is("extract") /\ Step([hs EXCEPT ![e.h] = AfterExtract(H, e.n)],
                                   Has("out") /\ H.mode = "out" /\ e.out = Stream(H, e.n))
DoFlipExtract == Is("flip_extract")
                 /\ Step([hs EXCEPT ![e.h] = AfterExtract(Flip(H), e.n)],
                         Has("out") /\ H.mode = "in" /\ e.out = Stream(Flip(H), e.n))
DoFlipExtractReset == Is("flip_extract_reset")
                      /\ Step([hs EXCEPT ![e.h] = Reset(H)],
                              Has("out") /\ H.mode = "in" /\ e.out = Stream(Flip(H), e.n))

Next == \/ DoInit \/ DoNew \/ DoUpdate \/ DoSkip \/ DoReset \/ DoClone \/ DoFinalize \/ DoHash
        \/ DoFlip \/ DoExtract \/ DoFlipExtract \/ DoFlipExtractReset
Spec == Init /\ [][Next]_vars

Consumed == TLCGet("stats").diameter - 1
TraceDone == PrintT(<<"TRACE_CONSUMED", Consumed, N>>) /\ Consumed = N
=============================================================================
