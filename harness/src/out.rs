// Trace output: one JSON object per line (ndjson), hand-written so that the
// harness depends on nothing but the code under test for what it reports.

use std::io::Write;

pub struct Ev {
    s: String,
}

impl Ev {
    pub fn new(op: &str) -> Ev {
        let mut e = Ev { s: String::with_capacity(256) };
        e.s.push_str("{\"op\":\"");
        e.s.push_str(op);
        e.s.push('"');
        e
    }
    fn key(&mut self, k: &str) {
        self.s.push_str(",\"");
        self.s.push_str(k);
        self.s.push_str("\":");
    }
    pub fn s(mut self, k: &str, v: &str) -> Ev {
        self.key(k);
        self.s.push('"');
        for c in v.chars() {
            match c {
                '"' => self.s.push_str("\\\""),
                '\\' => self.s.push_str("\\\\"),
                '\n' => self.s.push_str("\\n"),
                c if (c as u32) < 0x20 => self.s.push(' '),
                c => self.s.push(c),
            }
        }
        self.s.push('"');
        self
    }
    pub fn n(mut self, k: &str, v: i64) -> Ev {
        self.key(k);
        self.s.push_str(&v.to_string());
        self
    }
    pub fn t(mut self, k: &str, v: bool) -> Ev {
        self.key(k);
        self.s.push_str(if v { "true" } else { "false" });
        self
    }
    /// byte string as a JSON array of integers
    pub fn b(mut self, k: &str, v: &[u8]) -> Ev {
        self.key(k);
        push_bytes(&mut self.s, v);
        self
    }
    /// list of byte strings
    pub fn bb(mut self, k: &str, v: &[Vec<u8>]) -> Ev {
        self.key(k);
        self.s.push('[');
        for (i, x) in v.iter().enumerate() {
            if i > 0 {
                self.s.push(',');
            }
            push_bytes(&mut self.s, x);
        }
        self.s.push(']');
        self
    }
    /// list of small integers
    pub fn nn(mut self, k: &str, v: &[i64]) -> Ev {
        self.key(k);
        self.s.push('[');
        for (i, x) in v.iter().enumerate() {
            if i > 0 {
                self.s.push(',');
            }
            self.s.push_str(&x.to_string());
        }
        self.s.push(']');
        self
    }
    /// 32-bit status word: "ones" | "zero" | "bad:<hex>" (does not fit a TLC integer)
    pub fn st(self, k: &str, w: u32) -> Ev {
        let v = match w {
            0 => "zero".to_string(),
            0xFFFFFFFF => "ones".to_string(),
            x => format!("bad:{:08x}", x),
        };
        self.s(k, &v)
    }
    /// signed 128-bit (or wider) integer as {"neg":bool,"mag":bytes}
    pub fn i128(mut self, k: &str, v: i128) -> Ev {
        self.key(k);
        let neg = v < 0;
        let mag = v.unsigned_abs();
        self.s.push_str("{\"neg\":");
        self.s.push_str(if neg { "true" } else { "false" });
        self.s.push_str(",\"mag\":");
        push_bytes(&mut self.s, &trim(&mag.to_le_bytes()));
        self.s.push('}');
        self
    }
    pub fn raw(mut self, k: &str, json: &str) -> Ev {
        self.key(k);
        self.s.push_str(json);
        self
    }
    pub fn finish(mut self) -> String {
        self.s.push('}');
        self.s
    }
}

pub fn trim(b: &[u8]) -> Vec<u8> {
    let mut n = b.len();
    while n > 0 && b[n - 1] == 0 {
        n -= 1;
    }
    b[..n].to_vec()
}

fn push_bytes(s: &mut String, v: &[u8]) {
    s.push('[');
    for (i, x) in v.iter().enumerate() {
        if i > 0 {
            s.push(',');
        }
        s.push_str(&x.to_string());
    }
    s.push(']');
}

pub struct Trace {
    w: std::io::BufWriter<std::fs::File>,
    pub count: u64,
    /// flush after every event and announce calls before they are made (hang diagnosis)
    pub careful: bool,
}

impl Trace {
    pub fn create(path: &str) -> Trace {
        let f = std::fs::File::create(path).expect("cannot create trace file");
        Trace { w: std::io::BufWriter::new(f), count: 0, careful: std::env::var("VERIF_CAREFUL").is_ok() }
    }
    pub fn emit(&mut self, e: Ev) {
        let s = e.finish();
        self.w.write_all(s.as_bytes()).unwrap();
        self.w.write_all(b"\n").unwrap();
        self.count += 1;
        if self.careful {
            self.w.flush().unwrap();
        }
    }
    /// In careful mode, record the call about to be made in <trace>.pending so that
    /// a hang can be attributed to its input.
    pub fn pending(&mut self, e: Ev) {
        if self.careful {
            let s = e.finish();
            eprintln!("PENDING {}", s);
        }
    }
    pub fn flush(&mut self) {
        self.w.flush().unwrap();
    }
}

// Run a call of the code under test; a panic is data ("panic" field), not a crash.
thread_local! {
    pub static IN_GUARD: std::cell::Cell<u32> = std::cell::Cell::new(0);
}

/// Panic hook: silent for panics of the code under test (they are recorded as
/// data), loud for the harness's own bugs.
pub fn install_hook() {
    std::panic::set_hook(Box::new(|info| {
        if IN_GUARD.with(|g| g.get()) == 0 {
            eprintln!("HARNESS BUG: {}", info);
        }
    }));
}

pub fn guarded<T, F: FnOnce() -> T>(f: F) -> Result<T, String> {
    IN_GUARD.with(|g| g.set(g.get() + 1));
    let r = std::panic::catch_unwind(std::panic::AssertUnwindSafe(f));
    IN_GUARD.with(|g| g.set(g.get() - 1));
    match r {
        Ok(v) => Ok(v),
        Err(e) => {
            let msg = if let Some(s) = e.downcast_ref::<&str>() {
                s.to_string()
            } else if let Some(s) = e.downcast_ref::<String>() {
                s.clone()
            } else {
                "panic".to_string()
            };
            Err(msg.lines().next().unwrap_or("panic").to_string())
        }
    }
}

/// Like `guarded`, for calls that might not terminate: the call runs in its own
/// thread; Err("timeout") if it does not return within `secs` seconds (the
/// thread is abandoned and keeps a core busy until the process exits).
pub fn guarded_timeout<T: Send + 'static, F: FnOnce() -> T + Send + 'static>(
    secs: u64, f: F) -> Result<T, String>
{
    let (tx, rx) = std::sync::mpsc::channel();
    std::thread::spawn(move || {
        let r = guarded(f);
        let _ = tx.send(r);
    });
    match rx.recv_timeout(std::time::Duration::from_secs(secs)) {
        Ok(r) => r,
        Err(_) => Err("timeout".to_string()),
    }
}
