// LMS domain (C16): replays sign-call histories (which calls hit an RNG
// failure), then probes verification with own / altered / foreign signatures.

use crate::out::{guarded, Ev, Trace};
use crate::rng::Rng;
use rand_core::{CryptoRng, Error, RngCore};
use serde_json::Value;

/// RNG handed to crrl: deterministic, records what it produced, and can be
/// armed to panic on its next use (an RNG failure inside sign()).
struct TapeRng { inner: Rng, tape: Vec<u8>, fail: bool }
impl RngCore for TapeRng {
    fn next_u32(&mut self) -> u32 { let mut b = [0u8; 4]; self.fill_bytes(&mut b); u32::from_le_bytes(b) }
    fn next_u64(&mut self) -> u64 { let mut b = [0u8; 8]; self.fill_bytes(&mut b); u64::from_le_bytes(b) }
    fn fill_bytes(&mut self, dest: &mut [u8]) {
        if self.fail { panic!("injected RNG failure"); }
        self.inner.fill(dest);
        self.tape.extend_from_slice(dest);
    }
    fn try_fill_bytes(&mut self, dest: &mut [u8]) -> Result<(), Error> { self.fill_bytes(dest); Ok(()) }
}
impl CryptoRng for TapeRng {}

macro_rules! lms_impl {
    ($modname:ident, $set:expr, $m:ident, $n:expr) => {
        mod $modname {
            use super::*;
            use crrl::lms::$m::{PrivateKey, PublicKey};

            struct Key { sk: PrivateKey, pk: PublicKey, sigs: Vec<(Vec<u8>, Vec<u8>)> }

            fn keygen(tr: &mut Trace, rng: &mut Rng, id: usize) -> Option<Key> {
                let mut t = TapeRng { inner: Rng::new(rng.u64()), tape: Vec::new(), fail: false };
                let e = Ev::new("keygen").n("key", id as i64);
                match guarded(|| { let sk = PrivateKey::generate(&mut t); (sk, sk.compute_public()) }) {
                    Ok((sk, pk)) => {
                        // generate() draws the identifier I (16 bytes) then SEED (n bytes)
                        tr.emit(e.b("I", &t.tape[..16]).b("seed", &t.tape[16..16 + $n]));
                        Some(Key { sk, pk, sigs: Vec::new() })
                    }
                    Err(m) => { tr.emit(e.s("panic", &m)); None }
                }
            }

            fn sign(tr: &mut Trace, rng: &mut Rng, id: usize, k: &mut Key, crash: bool, deep: bool) {
                // lengths around the block / rate boundaries of the message hash (its input is I, q, D_MESG, C, message: 22 + n bytes before the message)
                let msg = { let l = *rng.pick(&[0usize, 1, 2, 9, 10, 13, 17, 18, 32, 55, 56, 64, 81, 82, 89, 90, 100]); rng.bytes(l) };
                let mut t = TapeRng { inner: Rng::new(rng.u64()), tape: Vec::new(), fail: crash };
                let e = Ev::new("sign").n("key", id as i64).b("msg", &msg).s("rng", if crash { "panic" } else { "ok" });
                let e = if deep { e.t("deep", true) } else { e };
                let sk = &mut k.sk;
                let mm = msg.clone();
                let r = guarded(|| sk.sign(&mut t, &mm).map(|s| s.to_vec()));
                // the key state after the call, as the type's Debug view shows it (the field is private)
                let e = match leaf_of(&format!("{:?}", k.sk)) { Some(q) => e.n("leaf", q), None => e };
                match r {
                    Ok(Some(sig)) => { tr.emit(e.s("res", "some").b("sig", &sig)); k.sigs.push((sig, msg)); }
                    Ok(None) => tr.emit(e.s("res", "none")),
                    Err(_) => tr.emit(e.s("res", "panic")),
                }
            }

            fn verify(tr: &mut Trace, id: usize, k: &Key, sig: &[u8], msg: &[u8], kind: &str) {
                let pk = k.pk;
                let (s, m) = (sig.to_vec(), msg.to_vec());
                let e = Ev::new("verify").n("key", id as i64).s("kind", kind).b("sig", sig).b("msg", msg);
                match guarded(move || pk.verify(&s, &m)) {
                    Ok(r) => tr.emit(e.t("res", r)),
                    Err(m) => tr.emit(e.s("panic", &m)),
                }
            }

            pub fn run_script(tr: &mut Trace, rng: &mut Rng, calls: &[String], deep: usize) {
                tr.emit(Ev::new("init").s("set", $set));
                let mut k0 = match keygen(tr, rng, 0) { Some(k) => k, None => return };
                let mut k1 = match keygen(tr, rng, 1) { Some(k) => k, None => return };
                let mut ndeep = 0;
                for (i, c) in calls.iter().enumerate() {
                    let d = ndeep < deep && c == "ok" && (i == 0 || i == 17 || i == 31);
                    if d { ndeep += 1; }
                    sign(tr, rng, 0, &mut k0, c == "crash", d);
                }
                sign(tr, rng, 1, &mut k1, false, false);
                // verification probes
                let n = k0.sigs.len();
                if n == 0 { return; }
                let mut picks = vec![0usize, n - 1, rng.below(n)];
                for (i, (_, m)) in k0.sigs.iter().enumerate() { if [81usize, 82, 89, 90, 9, 10, 17, 18].contains(&m.len()) && picks.len() < 8 { picks.push(i); } }
                picks.sort(); picks.dedup();
                let siglen = k0.sigs[0].0.len();
                let otslen = 4 + $n + $n * (if $n == 32 { 34 } else { 26 });
                for &i in &picks {
                    let (sig, msg) = k0.sigs[i].clone();
                    verify(tr, 0, &k0, &sig, &msg, "own");
                    let mut m2 = msg.clone(); if m2.is_empty() { m2.push(0) } else { m2[0] ^= 1 }
                    verify(tr, 0, &k0, &sig, &m2, "other-message");
                    verify(tr, 1, &k1, &sig, &msg, "foreign-key");
                    // every structural site
                    let sites = [0usize, 3, 4, 7, 8, 8 + $n - 1, 8 + $n, 8 + $n * 2, otslen + 3, otslen + 4, otslen + 7,
                                 otslen + 8, otslen + 8 + $n, siglen - 1, 8 + $n * (1 + rng.below(20))];
                    for &s in sites.iter() {
                        let mut a = sig.clone(); a[s] ^= 1 << rng.below(8);
                        verify(tr, 0, &k0, &a, &msg, "altered");
                    }
                    // leaf index replaced by another leaf's
                    let mut a = sig.clone(); a[3] = a[3].wrapping_add(1) & 31; verify(tr, 0, &k0, &a, &msg, "altered-q");
                    let mut a = sig.clone(); a[0] = 0x80; verify(tr, 0, &k0, &a, &msg, "q-out-of-range");
                    // the leaf number at and around the first value outside the tree (2^h = 32), and the extremes
                    for qv in [31u32, 32, 33, 63, 64, 0x7FFFFFFF, 0xFFFFFFE0, 0xFFFFFFFF] {
                        let mut a = sig.clone(); a[..4].copy_from_slice(&qv.to_be_bytes()); verify(tr, 0, &k0, &a, &msg, "q-boundary");
                    }
                    // the message extended / shortened by one byte (padding boundaries of the message hash)
                    let mut m3 = msg.clone(); m3.push(0); verify(tr, 0, &k0, &sig, &m3, "message+00");
                    let mut m3 = msg.clone(); m3.push(0x80); verify(tr, 0, &k0, &sig, &m3, "message+80");
                    if !msg.is_empty() { let mut m3 = msg.clone(); m3.pop(); verify(tr, 0, &k0, &sig, &m3, "message-1"); }
                    let mut a = sig.clone(); a.push(0); verify(tr, 0, &k0, &a, &msg, "longer");
                    let mut a = sig.clone(); a.pop(); verify(tr, 0, &k0, &a, &msg, "shorter");
                    verify(tr, 0, &k0, &[], &msg, "empty");
                }
                let (s1, m1) = k1.sigs[0].clone();
                verify(tr, 0, &k0, &s1, &m1, "foreign-signature");
                verify(tr, 1, &k1, &s1, &m1, "own");
            }
        }
    };
}

lms_impl!(sha256_m32, "sha256_m32", LMS_SHA256_M32_H5_SHA256_N32_W8, 32);
lms_impl!(sha256_m24, "sha256_m24", LMS_SHA256_M24_H5_SHA256_N24_W8, 24);
lms_impl!(shake_m32, "shake_m32", LMS_SHAKE_M32_H5_SHAKE_N32_W8, 32);
lms_impl!(shake_m24, "shake_m24", LMS_SHAKE_M24_H5_SHAKE_N24_W8, 24);

fn leaf_of(dbg: &str) -> Option<i64> {
    let i = dbg.find("current_leaf: ")? + "current_leaf: ".len();
    let t: String = dbg[i..].chars().take_while(|c| c.is_ascii_digit()).collect();
    t.parse::<i64>().ok()
}

pub fn run(tr: &mut Trace, rng: &mut Rng, script_file: &str, deep: usize) {
    let text = std::fs::read_to_string(script_file).expect("cannot read script file");
    for line in text.lines() {
        if line.trim().is_empty() { continue; }
        let v: Value = serde_json::from_str(line).expect("bad script line");
        let calls: Vec<String> = v["calls"].as_array().unwrap().iter().map(|x| x.as_str().unwrap().to_string()).collect();
        match v["set"].as_str().unwrap() {
            "sha256_m32" => sha256_m32::run_script(tr, rng, &calls, deep),
            "sha256_m24" => sha256_m24::run_script(tr, rng, &calls, deep),
            "shake_m32" => shake_m32::run_script(tr, rng, &calls, deep),
            _ => shake_m24::run_script(tr, rng, &calls, deep),
        }
    }
}
