// Integer helper domain: the public Zu128 / Zu256 / Zu384 types (src/backend/*/zz.rs) that carry the
// rounded divisions of the endomorphism splits.  Flat events: operands as little-endian bytes, every
// observable output.  Values of the opaque types are read back through the API itself:
//   Zu128 -> abs()                      (|x| and sign of the signed interpretation)
//   Zu256 -> trunc128() and (x * 2^97 as Zu384).trunc_and_rsh_cc(0, 225) = floor(x / 2^128)
// TLC (spec/TraceZz.tla) recomputes everything over BigNat.

use crate::out::{guarded, Ev, Trace};
use crate::rng::Rng;
use crrl::{Zu128, Zu256, Zu384};

fn z128(b: &[u8]) -> Zu128 { Zu128::decode(b).unwrap() }
fn z256(b: &[u8]) -> Zu256 { Zu256::decode(b).unwrap() }
fn obs128(x: Zu128) -> (Vec<u8>, u32) { let (m, s) = x.abs(); (m.to_le_bytes().to_vec(), s) }
/// (low 128 bits, high 128 bits) of a Zu256, each as the (magnitude, sign) of its signed reading
fn obs256(x: Zu256) -> ((Vec<u8>, u32), (Vec<u8>, u32)) {
    let lo = obs128(x.trunc128());
    let mut t: Zu384 = x.mul256x128(&Zu128::w64le(0, 1u64 << 33));     // x * 2^97
    let (_, hi) = t.trunc_and_rsh_cc(0, 225);
    (lo, obs128(hi))
}

fn classes128(rng: &mut Rng) -> Vec<Vec<u8>> {
    let mut v: Vec<u128> = vec![0, 1, 2, u64::MAX as u128, (u64::MAX as u128) + 1, (u64::MAX as u128) + 2, 1u128 << 127, (1u128 << 127) - 1,
        (1u128 << 127) + 1, u128::MAX, u128::MAX - 1, (1u128 << 64) - 2, 3u128 << 63, (u32::MAX as u128), (u32::MAX as u128) + 1,
        u128::MAX << 64, (u128::MAX << 64) | 1, 1u128 << 96, (1u128 << 96) - 1];
    for _ in 0..6 { v.push(((rng.u64() as u128) << 64) | rng.u64() as u128); }
    for _ in 0..3 { v.push((rng.u64() as u128) << 64); v.push(rng.u64() as u128); v.push(((rng.u64() as u128) << 64) | u64::MAX as u128); }
    v.into_iter().map(|x| x.to_le_bytes().to_vec()).collect()
}
fn classes256(rng: &mut Rng) -> Vec<Vec<u8>> {
    let c = classes128(rng);
    let mut v: Vec<Vec<u8>> = Vec::new();
    for i in 0..c.len() { let mut b = c[i].clone(); b.extend_from_slice(&c[(i * 7 + 3) % c.len()]); v.push(b); }
    v.push(vec![0xFFu8; 32]); v.push(vec![0u8; 32]);
    let mut t = vec![0u8; 32]; t[28] = 1; v.push(t.clone());            // 2^224
    let mut t2 = vec![0xFFu8; 32]; for x in t2[28..].iter_mut() { *x = 0; } v.push(t2);   // 2^224 - 1
    t[28] = 0; t[31] = 0x80; v.push(t);
    for _ in 0..4 { v.push(rng.bytes(32)); }
    v
}

pub fn run(tr: &mut Trace, rng: &mut Rng, n: usize) {
    tr.emit(Ev::new("init").s("dom", "zz"));
    // decoders: exact lengths only
    for len in [0usize, 1, 15, 16, 17, 31, 32, 33, 48] {
        let b = rng.bytes(len);
        let (b1, b2) = (b.clone(), b.clone());
        let r1 = guarded(move || Zu128::decode(&b1).is_some());
        let r2 = guarded(move || Zu256::decode(&b2).is_some());
        let e = Ev::new("zz_decode").n("len", len as i64);
        match (r1, r2) {
            (Ok(a), Ok(c)) => tr.emit(e.t("some128", a).t("some256", c)),
            _ => tr.emit(e.s("panic", "decode")),
        }
    }
    let c128 = classes128(rng);
    let c256 = classes256(rng);
    let u32s = [0u32, 1, 2, 0x7FFFFFFF, 0x80000000, 0xFFFFFFFF, rng.u64() as u32];
    // Zu128, unary and with a small integer
    for a in c128.iter() {
        let a1 = a.clone();
        let e = Ev::new("zz128_un").b("a", a);
        match guarded(move || { let x = z128(&a1); (x.abs(), x.double_inc_abs()) }) {
            Ok(((m, s), (m2, s2))) => tr.emit(e.b("abs", &m.to_le_bytes()).st("sgn", s).b("dia", &m2.to_le_bytes()).st("dsgn", s2)),
            Err(m) => tr.emit(e.s("panic", &m)),
        }
        for &w in u32s.iter() {
            let a1 = a.clone();
            let e = Ev::new("zz128_sub_u32").b("a", a).b("w", &w.to_le_bytes());
            match guarded(move || { let mut x = z128(&a1); x.set_sub_u32(w); obs128(x) }) {
                Ok((m, s)) => tr.emit(e.b("abs", &m).st("sgn", s)),
                Err(m) => tr.emit(e.s("panic", &m)),
            }
        }
    }
    // Zu128 x Zu128
    let mut k = 0usize;
    for a in c128.iter() { for b in c128.iter() {
        k += 1;
        if n < 100 && k % 5 != 0 { continue; }
        let (a1, b1) = (a.clone(), b.clone());
        let e = Ev::new("zz128_bin").b("a", a).b("b", b);
        match guarded(move || {
            let (x, y) = (z128(&a1), z128(&b1));
            let p = x.mul128x128(&y);
            let t = x.mul128x128trunc(&y);
            let mut d = x; d.set_sub(&y);
            (obs256(p), obs128(t), obs128(d))
        }) {
            Ok(((lo, hi), t, d)) => tr.emit(e.b("plo", &lo.0).st("plos", lo.1).b("phi", &hi.0).st("phis", hi.1)
                .b("trunc", &t.0).st("truncs", t.1).b("diff", &d.0).st("diffs", d.1)),
            Err(m) => tr.emit(e.s("panic", &m)),
        }
    } }
    // Zu256 x Zu256: add_rsh224, borrow; observation of a Zu256
    k = 0;
    for a in c256.iter() { for b in c256.iter() {
        k += 1;
        if n < 100 && k % 7 != 0 { continue; }
        let (a1, b1) = (a.clone(), b.clone());
        let e = Ev::new("zz256_bin").b("a", a).b("b", b);
        match guarded(move || { let (x, y) = (z256(&a1), z256(&b1)); (x.add_rsh224(&y), x.borrow(&y), obs256(x)) }) {
            Ok((w, bw, (lo, hi))) => tr.emit(e.b("rsh", &w.to_le_bytes()).n("borrow", bw as i64)
                .b("lo", &lo.0).st("los", lo.1).b("hi", &hi.0).st("his", hi.1)),
            Err(m) => tr.emit(e.s("panic", &m)),
        }
    } }
    // Zu256 x Zu128 -> Zu384, plus a second product, then trunc_and_rsh_cc(cc, n) for every n in 225..=255
    k = 0;
    for a in c256.iter() { for b in c128.iter() {
        k += 1;
        if k % (if n < 100 { 11 } else { 3 }) != 0 { continue; }
        let c = c256[(k * 5 + 1) % c256.len()].clone();
        let d = c128[(k * 3 + 2) % c128.len()].clone();
        let cc = u32s[k % u32s.len()];
        let sh = 225 + (k as u32 % 31);
        let with_add = k % 2 == 0;
        let (a1, b1, c1, d1) = (a.clone(), b.clone(), c.clone(), d.clone());
        let e = Ev::new("zz384").b("a", a).b("b", b).b("c", &c).b("d", &d).t("add", with_add).b("cc", &cc.to_le_bytes()).n("n", sh as i64);
        match guarded(move || {
            let mut p = z256(&a1).mul256x128(&z128(&b1));
            if with_add { let q = z256(&c1).mul256x128(&z128(&d1)); p.set_add(&q); }
            let (lo, hi) = p.trunc_and_rsh_cc(cc, sh);
            (obs256(lo), obs128(hi))
        }) {
            Ok(((l0, l1), h)) => tr.emit(e.b("lo", &l0.0).st("los", l0.1).b("mid", &l1.0).st("mids", l1.1).b("hi", &h.0).st("his", h.1)),
            Err(m) => tr.emit(e.s("panic", &m)),
        }
    } }
}
