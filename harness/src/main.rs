// crrl-conf: conformance harness.  Executes generated programs against the
// real crrl API (path dependency on /repo, rebuilt from the working tree) and
// records one ndjson event per public call.  It never decides anything.

mod field;
mod frost;
mod gfb;
mod group;
mod hash;
mod lms;
mod out;
mod rng;
mod sig;
mod total;
mod zz;

use std::collections::HashMap;

fn main() {
    let args: Vec<String> = std::env::args().collect();
    if args.len() < 2 {
        eprintln!("usage: crrl-conf <domain> [--key value]...");
        std::process::exit(2);
    }
    let domain = args[1].clone();
    let mut kv: HashMap<String, String> = HashMap::new();
    let mut i = 2;
    while i + 1 < args.len() {
        kv.insert(args[i].trim_start_matches("--").to_string(), args[i + 1].clone());
        i += 2;
    }
    let get = |k: &str, d: &str| kv.get(k).cloned().unwrap_or(d.to_string());
    let num = |k: &str, d: usize| kv.get(k).map(|s| s.parse::<usize>().unwrap()).unwrap_or(d);
    let seed: u64 = get("seed", "1").parse().unwrap();
    let out = get("out", "trace.ndjson");
    // a panic inside the code under test is recorded as data; keep stderr quiet
    out::install_hook();
    let mut tr = out::Trace::create(&out);
    let mut rng = rng::Rng::new(seed ^ 0xC221_5EED);
    match domain.as_str() {
        "field" => {
            let plan = field::Plan {
                lattice_pairs: num("lattice", 300),
                random_scripts: num("scripts", 20),
                script_len: num("len", 40),
                codec_random: num("codec", 100),
                div_cases: num("div", 30),
                split_cases: num("split", 100),
                gcd_sweep: num("gcd", 0),
                mulsearch: num("mulsearch", 0),
                profile: get("profile", "all"),
            };
            let what = get("what", "lattice+random");
            for ty in get("types", "GF25519").split(',') {
                field::run(&mut tr, &mut rng, ty, &what, &plan);
            }
        }
        "group" => {
            let plan = group::Plan {
                scripts: num("scripts", 10),
                len: num("len", 30),
                scalars: num("scalars", 60),
                codec_random: num("codec", 50),
                profile: get("profile", "law"),
                tables_stride: num("stride", 1),
            };
            let what = get("what", "law");
            for g in get("groups", "ed25519").split(',') {
                group::run(&mut tr, &mut rng, g, &what, &plan);
            }
        }
        "xdh" => sig::run_xdh(&mut tr, &mut rng, num("n", 40)),
        "eddsa" => sig::run_eddsa(&mut tr, &mut rng, &get("curve", "ed25519"), num("honest", 12), num("adv", 24)),
        "gfb" => gfb::run(&mut tr, &mut rng, num("scripts", 10), num("len", 40)),
        "trunc" => sig::run_trunc(&mut tr, &mut rng, &get("what", "ed25519"), num("n", 10), num("part", 0), num("parts", 1)),
        "jq" => sig::run_jq(&mut tr, &mut rng, &get("curve", "jq255e"), num("honest", 6), num("adv", 3)),
        "ecdsa" => sig::run_ecdsa(&mut tr, &mut rng, &get("curve", "p256"), num("honest", 12), num("adv", 12)),
        "zz" => zz::run(&mut tr, &mut rng, num("n", 10)),
        "total" => total::run(&mut tr, &mut rng, num("part", 0), num("parts", 1), num("step", 1)),
        "frost" => frost::run(&mut tr, &mut rng, &get("script", "")),
        "lms" => lms::run(&mut tr, &mut rng, &get("script", ""), num("deep", 0)),
        "hash" => hash::run(&mut tr, &mut rng, &get("script", "")),
        _ => {
            eprintln!("unknown domain {}", domain);
            std::process::exit(2);
        }
    }
    tr.flush();
    eprintln!("events={}", tr.count);
}
