// Group domain: register-machine programs over the curve / group types.
// Records one event per public call; TLC (spec/TraceGroup.tla) decides.

use crate::out::{guarded, trim, Ev, Trace};
use crate::rng::Rng;
use num_bigint::{BigInt, BigUint, Sign};

pub trait GroupApi: Copy + Send + 'static {
    const NAME: &'static str;
    const SC_LEN: usize; // bytes of a canonical scalar encoding
    fn order() -> BigUint; // order of the scalar field (input generation only)
    fn neutral() -> Self;
    fn base() -> Self;
    fn decode(b: &[u8]) -> Option<Self>;
    /// status word of the in-place decoder
    fn set_decode_status(b: &[u8]) -> u32;
    fn encode(&self) -> Vec<u8>;
    fn encode_c(&self) -> Option<Vec<u8>> { None }
    fn add(a: Self, b: Self, v: u32) -> Self;
    fn sub(a: Self, b: Self, v: u32) -> Self;
    fn neg(a: Self, v: u32) -> Self;
    fn double(a: Self, v: u32) -> Self;
    fn xdouble(a: Self, n: u32) -> Self;
    fn mul_small(a: Self, n: u64, v: u32) -> Option<Self>;
    fn verify_helper(_q: Self, _r: Self, _s: &[u8], _k: &[u8]) -> Option<bool> { None }
    fn mul128(_a: Self, _u: u128, _w: &[u8], _v: u32) -> Option<Self> { None }
    fn mul64mu(_a: Self, _u0: u64, _u1: u64, _w: &[u8], _v: u32) -> Option<Self> { None }
    /// byte-string-to-group map (one_way_map) and its input length
    fn map(_b: &[u8]) -> Option<Self> { None }
    fn map_len() -> usize { 0 }
    fn mul(a: Self, k: &[u8], v: u32) -> Self;
    fn mulgen(k: &[u8], v: u32) -> Self;
    fn mamv(a: Self, u: &[u8], w: &[u8], v: u32) -> Option<Self>;
    fn equals(a: Self, b: Self) -> u32;
    fn isneutral(a: Self) -> u32;
    fn set_cond(d: &mut Self, a: &Self, ctl: u32);
    fn select(a0: &Self, a1: &Self, ctl: u32) -> Self;
    fn set_condneg(d: &mut Self, ctl: u32) -> bool;
    /// GLS254: endomorphism and the scalar split along it: (|k0|, sgn k0, |k1|, sgn k1)
    fn zeta(_a: Self, _neg: u32) -> Option<Self> { None }
    fn split_mu(_k: &[u8], _odd: bool) -> Option<(u128, u32, u128, u32)> { None }
    /// structure tests of the plain Edwards curves
    fn has_low_order(_a: Self) -> Option<u32> { None }
    fn is_in_subgroup(_a: Self) -> Option<u32> { None }
    /// (affine u, projective X, projective Z) of the Montgomery map, encoded
    fn mont_u(_a: Self) -> Option<(Vec<u8>, Vec<u8>, Vec<u8>)> { None }
    /// coordinate access of the Weierstrass curves (field elements as 32 little-endian bytes)
    fn to_affine(_a: Self) -> Option<(Vec<u8>, Vec<u8>, u32)> { None }
    fn to_projective(_a: Self) -> Option<(Vec<u8>, Vec<u8>, Vec<u8>)> { None }
    fn from_affine(_x: &[u8], _y: &[u8]) -> Option<Option<Self>> { None }
    fn from_projective(_x: &[u8], _y: &[u8], _z: &[u8]) -> Option<Option<Self>> { None }
    fn field_modulus() -> Option<BigUint> { None }
    /// x-only sequence x(P0 + i*(P1 - P0)), i = 0..n+1 (P-256)
    fn xseq(_p0: Self, _p1: Self, _n: usize) -> Option<(Vec<Vec<u8>>, Vec<u8>, Vec<u8>)> { None }
    /// well-known encodings worth decoding: low-order points, special coordinates
    fn special_encodings() -> Vec<Vec<u8>>;
    fn enc_len() -> usize;
}

macro_rules! group_common {
    ($pt:ty, $sc:ty) => {
        fn neutral() -> Self { <$pt>::NEUTRAL }
        fn base() -> Self { <$pt>::BASE }
        fn decode(b: &[u8]) -> Option<Self> { <$pt>::decode(b) }
        fn set_decode_status(b: &[u8]) -> u32 { let mut p = <$pt>::BASE; p.set_decode(b) }
        // every operator form: value / reference operands on either side, and the assigning forms
        fn add(a: Self, b: Self, v: u32) -> Self {
            match v % 6 { 0 => a + b, 1 => &a + &b, 2 => a + &b, 3 => &a + b, 4 => { let mut r = a; r += b; r } _ => { let mut r = a; r += &b; r } }
        }
        fn sub(a: Self, b: Self, v: u32) -> Self {
            match v % 6 { 0 => a - b, 1 => &a - &b, 2 => a - &b, 3 => &a - b, 4 => { let mut r = a; r -= b; r } _ => { let mut r = a; r -= &b; r } }
        }
        fn neg(a: Self, v: u32) -> Self {
            match v % 3 { 0 => -a, 1 => -&a, _ => { let mut r = a; r.set_neg(); r } }
        }
        fn double(a: Self, v: u32) -> Self {
            match v & 1 { 0 => a.double(), _ => { let mut r = a; r.set_double(); r } }
        }
        fn xdouble(a: Self, n: u32) -> Self { a.xdouble(n) }
        fn mul(a: Self, k: &[u8], v: u32) -> Self {
            let s = <$sc>::decode_reduce(k);
            match v % 8 { 0 => a * s, 1 => &a * &s, 2 => s * a, 3 => a * &s, 4 => &a * s, 5 => &s * &a, 6 => { let mut r = a; r *= &s; r } _ => { let mut r = a; r *= s; r } }
        }
        fn mulgen(k: &[u8], v: u32) -> Self {
            let s = <$sc>::decode_reduce(k);
            // the in-place form overwrites its receiver: start from a non-neutral one
            match v & 3 { 0 | 2 => <$pt>::mulgen(&s), 1 => { let mut r = <$pt>::BASE; r.set_mulgen(&s); r }
                          _ => { let mut r = <$pt>::BASE.double(); r.set_mulgen(&s); r } }
        }
        fn equals(a: Self, b: Self) -> u32 { a.equals(b) }
        fn isneutral(a: Self) -> u32 { a.isneutral() }
        fn set_cond(d: &mut Self, a: &Self, ctl: u32) { d.set_cond(a, ctl) }
        fn select(a0: &Self, a1: &Self, ctl: u32) -> Self { <$pt>::select(a0, a1, ctl) }
    };
}

macro_rules! mul_small_std {
    () => {
        fn mul_small(a: Self, n: u64, v: u32) -> Option<Self> {
            Some(match v & 1 { 0 => a * n, _ => { let mut r = a; r.set_mul_small(n); r } })
        }
    };
}

macro_rules! mamv_std {
    ($sc:ty) => {
        fn mamv(a: Self, u: &[u8], w: &[u8], v: u32) -> Option<Self> {
            let (su, sw) = (<$sc>::decode_reduce(u), <$sc>::decode_reduce(w));
            Some(match v & 1 {
                0 => a.mul_add_mulgen_vartime(&su, &sw),
                _ => { let mut r = a; r.set_mul_add_mulgen_vartime(&su, &sw); r }
            })
        }
    };
}

macro_rules! vh_std {
    ($sc:ty) => {
        fn verify_helper(q: Self, r: Self, s: &[u8], k: &[u8]) -> Option<bool> {
            Some(q.verify_helper_vartime(&r, &<$sc>::decode_reduce(s), &<$sc>::decode_reduce(k)))
        }
    };
}

macro_rules! mul128_std {
    ($sc:ty) => {
        fn mul128(a: Self, u: u128, w: &[u8], v: u32) -> Option<Self> {
            let sw = <$sc>::decode_reduce(w);
            Some(match v & 1 {
                0 => a.mul128_add_mulgen_vartime(u, &sw),
                _ => { let mut r = a; r.set_mul128_add_mulgen_vartime(u, &sw); r }
            })
        }
    };
}

fn hexb(s: &str) -> Vec<u8> {
    (0..s.len() / 2).map(|i| u8::from_str_radix(&s[2 * i..2 * i + 2], 16).unwrap()).collect()
}

fn hexn(s: &str) -> BigUint { BigUint::parse_bytes(s.as_bytes(), 16).unwrap() }

impl GroupApi for crrl::ed25519::Point {
    const NAME: &'static str = "ed25519";
    const SC_LEN: usize = 32;
    fn order() -> BigUint { hexn("1000000000000000000000000000000014def9dea2f79cd65812631a5cf5d3ed") }
    group_common!(crrl::ed25519::Point, crrl::ed25519::Scalar);
    mamv_std!(crrl::ed25519::Scalar);
    mul_small_std!();
    vh_std!(crrl::ed25519::Scalar);
    fn encode(&self) -> Vec<u8> { crrl::ed25519::Point::encode(*self).to_vec() }
    fn has_low_order(a: Self) -> Option<u32> { Some(a.has_low_order()) }
    fn is_in_subgroup(a: Self) -> Option<u32> { Some(a.is_in_subgroup()) }
    fn mont_u(a: Self) -> Option<(Vec<u8>, Vec<u8>, Vec<u8>)> {
        let u = a.to_montgomery_u();
        let (x, z) = a.to_montgomery_u_projective();
        Some((u.encode().to_vec(), x.encode().to_vec(), z.encode().to_vec()))
    }
    fn set_condneg(d: &mut Self, ctl: u32) -> bool { d.set_condneg(ctl); true }
    fn enc_len() -> usize { 32 }
    fn special_encodings() -> Vec<Vec<u8>> {
        let mut v = Vec::new();
        // the eight points of small order (y = 1, -1, 0, 0, and the order-8 pair with both signs)
        for h in ["0100000000000000000000000000000000000000000000000000000000000000",
                  "ecffffffffffffffffffffffffffffffffffffffffffffffffffffffffffff7f",
                  "0000000000000000000000000000000000000000000000000000000000000000",
                  "0000000000000000000000000000000000000000000000000000000000000080",
                  "26e8958fc2b227b045c3f489f2ef98f0d5dfac05d3c63339b13802886d53fc05",
                  "26e8958fc2b227b045c3f489f2ef98f0d5dfac05d3c63339b13802886d53fc85",
                  "c7176a703d4dd84fba3c0b760d10670f2a2053fa2c39ccc64ec7fd7792ac037a",
                  "c7176a703d4dd84fba3c0b760d10670f2a2053fa2c39ccc64ec7fd7792ac03fa"] {
            v.push(hexb(h));
        }
        v
    }
}

impl GroupApi for crrl::ed448::Point {
    const NAME: &'static str = "ed448";
    const SC_LEN: usize = 56;
    fn order() -> BigUint {
        (BigUint::from(1u32) << 446) - BigUint::parse_bytes(
            b"13818066809895115352007386748515426880336692474882178609894547503885", 10).unwrap()
    }
    group_common!(crrl::ed448::Point, crrl::ed448::Scalar);
    mamv_std!(crrl::ed448::Scalar);
    mul_small_std!();
    vh_std!(crrl::ed448::Scalar);
    fn encode(&self) -> Vec<u8> { crrl::ed448::Point::encode(*self).to_vec() }
    fn has_low_order(a: Self) -> Option<u32> { Some(a.has_low_order()) }
    fn is_in_subgroup(a: Self) -> Option<u32> { Some(a.is_in_subgroup()) }
    fn mont_u(a: Self) -> Option<(Vec<u8>, Vec<u8>, Vec<u8>)> {
        let u = a.to_montgomery_u();
        Some((u.encode().to_vec(), Vec::new(), Vec::new()))
    }
    fn set_condneg(d: &mut Self, ctl: u32) -> bool { d.set_condneg(ctl); true }
    fn enc_len() -> usize { 57 }
    fn special_encodings() -> Vec<Vec<u8>> {
        let mut v = Vec::new();
        let mut one = vec![0u8; 57]; one[0] = 1; v.push(one);                // (0, 1)
        let mut m1 = vec![0xFFu8; 57]; m1[0] = 0xFE; m1[28] = 0xFE; m1[56] = 0; v.push(m1); // (0, -1)
        v.push(vec![0u8; 57]);                                               // (-1, 0): x = p-1 is even
        let mut x1 = vec![0u8; 57]; x1[56] = 0x80; v.push(x1);               // (1, 0)
        v
    }
}

impl GroupApi for crrl::p256::Point {
    const NAME: &'static str = "p256";
    const SC_LEN: usize = 32;
    fn order() -> BigUint { hexn("ffffffff00000000ffffffffffffffffbce6faada7179e84f3b9cac2fc632551") }
    group_common!(crrl::p256::Point, crrl::p256::Scalar);
    mamv_std!(crrl::p256::Scalar);
    mul_small_std!();
    vh_std!(crrl::p256::Scalar);
    fn encode(&self) -> Vec<u8> { self.encode_uncompressed().to_vec() }
    fn encode_c(&self) -> Option<Vec<u8>> { Some(self.encode_compressed().to_vec()) }
    fn to_affine(a: Self) -> Option<(Vec<u8>, Vec<u8>, u32)> {
        let (x, y, r) = a.to_affine();
        Some((x.encode32().to_vec(), y.encode32().to_vec(), r))
    }
    fn to_projective(a: Self) -> Option<(Vec<u8>, Vec<u8>, Vec<u8>)> {
        let (x, y, z) = a.to_projective();
        Some((x.encode32().to_vec(), y.encode32().to_vec(), z.encode32().to_vec()))
    }
    fn from_affine(x: &[u8], y: &[u8]) -> Option<Option<Self>> {
        Some(<crrl::p256::Point>::from_affine(<crrl::field::GFp256>::decode_reduce(x), <crrl::field::GFp256>::decode_reduce(y)))
    }
    fn from_projective(x: &[u8], y: &[u8], z: &[u8]) -> Option<Option<Self>> {
        Some(<crrl::p256::Point>::from_projective(<crrl::field::GFp256>::decode_reduce(x), <crrl::field::GFp256>::decode_reduce(y), <crrl::field::GFp256>::decode_reduce(z)))
    }
    fn field_modulus() -> Option<BigUint> { Some(hexn("ffffffff00000001000000000000000000000000ffffffffffffffffffffffff")) }
    fn xseq(p0: Self, p1: Self, n: usize) -> Option<(Vec<Vec<u8>>, Vec<u8>, Vec<u8>)> {
        let (x0, x1, xq) = <crrl::p256::Point>::to_x_affine_diff(p0, p1);
        let mut xx = vec![<crrl::field::GFp256>::ZERO; n];
        let (xn, xn1) = <crrl::p256::Point>::x_sequence_vartime(x0, x1, xq, &mut xx);
        Some((xx.iter().map(|x| x.encode32().to_vec()).collect(), xn.encode32().to_vec(), xn1.encode32().to_vec()))
    }
    fn set_condneg(d: &mut Self, ctl: u32) -> bool { d.set_condneg(ctl); true }
    fn enc_len() -> usize { 65 }
    fn special_encodings() -> Vec<Vec<u8>> {
        // the point at infinity, and the two points with x = 0
        let mut v = vec![vec![0u8]];
        let mut a = vec![0u8; 33]; a[0] = 2; v.push(a.clone()); a[0] = 3; v.push(a);
        v
    }
}

impl GroupApi for crrl::secp256k1::Point {
    const NAME: &'static str = "secp256k1";
    const SC_LEN: usize = 32;
    fn order() -> BigUint { hexn("fffffffffffffffffffffffffffffffebaaedce6af48a03bbfd25e8cd0364141") }
    group_common!(crrl::secp256k1::Point, crrl::secp256k1::Scalar);
    mamv_std!(crrl::secp256k1::Scalar);
    mul_small_std!();
    vh_std!(crrl::secp256k1::Scalar);
    fn encode(&self) -> Vec<u8> { self.encode_uncompressed().to_vec() }
    fn encode_c(&self) -> Option<Vec<u8>> { Some(self.encode_compressed().to_vec()) }
    fn to_affine(a: Self) -> Option<(Vec<u8>, Vec<u8>, u32)> {
        let (x, y, r) = a.to_affine();
        Some((x.encode32().to_vec(), y.encode32().to_vec(), r))
    }
    fn to_projective(a: Self) -> Option<(Vec<u8>, Vec<u8>, Vec<u8>)> {
        let (x, y, z) = a.to_projective();
        Some((x.encode32().to_vec(), y.encode32().to_vec(), z.encode32().to_vec()))
    }
    fn from_affine(x: &[u8], y: &[u8]) -> Option<Option<Self>> {
        Some(<crrl::secp256k1::Point>::from_affine(<crrl::field::GFsecp256k1>::decode_reduce(x), <crrl::field::GFsecp256k1>::decode_reduce(y)))
    }
    fn from_projective(x: &[u8], y: &[u8], z: &[u8]) -> Option<Option<Self>> {
        Some(<crrl::secp256k1::Point>::from_projective(<crrl::field::GFsecp256k1>::decode_reduce(x), <crrl::field::GFsecp256k1>::decode_reduce(y), <crrl::field::GFsecp256k1>::decode_reduce(z)))
    }
    fn field_modulus() -> Option<BigUint> { Some(hexn("fffffffffffffffffffffffffffffffffffffffffffffffffffffffefffffc2f")) }
    fn set_condneg(d: &mut Self, ctl: u32) -> bool { d.set_condneg(ctl); true }
    fn enc_len() -> usize { 65 }
    fn special_encodings() -> Vec<Vec<u8>> {
        // infinity; x = 1 (y^2 = 8 is a square mod p? decoded either way) ; a point with y = 0 does not exist
        let mut v = vec![vec![0u8]];
        let mut a = vec![0u8; 33]; a[0] = 2; a[32] = 1; v.push(a.clone()); a[0] = 3; v.push(a);
        v
    }
}

macro_rules! mamv_noset {
    ($sc:ty) => {
        fn mamv(a: Self, u: &[u8], w: &[u8], _v: u32) -> Option<Self> {
            let (su, sw) = (<$sc>::decode_reduce(u), <$sc>::decode_reduce(w));
            Some(a.mul_add_mulgen_vartime(&su, &sw))
        }
    };
}

impl GroupApi for crrl::ristretto255::Point {
    const NAME: &'static str = "ristretto255";
    const SC_LEN: usize = 32;
    fn order() -> BigUint { hexn("1000000000000000000000000000000014def9dea2f79cd65812631a5cf5d3ed") }
    group_common!(crrl::ristretto255::Point, crrl::ristretto255::Scalar);
    mamv_noset!(crrl::ristretto255::Scalar);
    vh_std!(crrl::ristretto255::Scalar);
    fn mul_small(_a: Self, _n: u64, _v: u32) -> Option<Self> { None }
    fn encode(&self) -> Vec<u8> { crrl::ristretto255::Point::encode(*self).to_vec() }
    fn set_condneg(d: &mut Self, ctl: u32) -> bool { d.set_condneg(ctl); true }
    fn enc_len() -> usize { 32 }
    fn map(b: &[u8]) -> Option<Self> { Some(crrl::ristretto255::Point::one_way_map(b)) }
    fn map_len() -> usize { 64 }
    fn special_encodings() -> Vec<Vec<u8>> {
        // neutral; the RFC 9496 generator multiples 1 and 2
        vec![vec![0u8; 32],
             hexb("e2f2ae0a6abc4e71a884a961c500515f58e30b6aa582dd8db6a65945e08d2d76"),
             hexb("6a493210f7499cd17fecb510ae0cea23a110e8d5b901f8acadd3095c73a3b919")]
    }
}

impl GroupApi for crrl::decaf448::Point {
    const NAME: &'static str = "decaf448";
    const SC_LEN: usize = 56;
    fn order() -> BigUint {
        (BigUint::from(1u32) << 446) - BigUint::parse_bytes(
            b"13818066809895115352007386748515426880336692474882178609894547503885", 10).unwrap()
    }
    group_common!(crrl::decaf448::Point, crrl::decaf448::Scalar);
    mamv_noset!(crrl::decaf448::Scalar);
    vh_std!(crrl::decaf448::Scalar);
    fn mul_small(_a: Self, _n: u64, _v: u32) -> Option<Self> { None }
    fn encode(&self) -> Vec<u8> { crrl::decaf448::Point::encode(*self).to_vec() }
    fn set_condneg(d: &mut Self, ctl: u32) -> bool { d.set_condneg(ctl); true }
    fn enc_len() -> usize { 56 }
    fn map(b: &[u8]) -> Option<Self> { Some(crrl::decaf448::Point::one_way_map(b)) }
    fn map_len() -> usize { 112 }
    fn special_encodings() -> Vec<Vec<u8>> {
        vec![vec![0u8; 56],
             hexb("6666666666666666666666666666666666666666666666666666666633333333333333333333333333333333333333333333333333333333")]
    }
}

impl GroupApi for crrl::jq255e::Point {
    const NAME: &'static str = "jq255e";
    const SC_LEN: usize = 32;
    fn order() -> BigUint { hexn("3fffffffffffffffffffffffffffffff9d0c930f54078c531f52c8ae74d84525") }
    group_common!(crrl::jq255e::Point, crrl::jq255e::Scalar);
    mamv_std!(crrl::jq255e::Scalar);
    mul_small_std!();
    mul128_std!(crrl::jq255e::Scalar);
    fn encode(&self) -> Vec<u8> { crrl::jq255e::Point::encode(*self).to_vec() }
    fn set_condneg(d: &mut Self, ctl: u32) -> bool { d.set_condneg(ctl); true }
    fn enc_len() -> usize { 32 }
    fn special_encodings() -> Vec<Vec<u8>> {
        let mut one = vec![0u8; 32]; one[0] = 1;
        vec![vec![0u8; 32], one]
    }
}

impl GroupApi for crrl::gls254::Point {
    const NAME: &'static str = "gls254";
    const SC_LEN: usize = 32;
    fn order() -> BigUint { hexn("200000000000000000000000000000003f1a47dedc1a1dad3cbde37cf43a8cf5") }
    group_common!(crrl::gls254::Point, crrl::gls254::Scalar);
    mamv_std!(crrl::gls254::Scalar);
    mul_small_std!();
    fn encode(&self) -> Vec<u8> { crrl::gls254::Point::encode(*self).to_vec() }
    fn set_condneg(d: &mut Self, ctl: u32) -> bool { d.set_condneg(ctl); true }
    fn enc_len() -> usize { 32 }
    fn mul64mu(a: Self, u0: u64, u1: u64, w: &[u8], v: u32) -> Option<Self> {
        let sw = crrl::gls254::Scalar::decode_reduce(w);
        Some(match v & 1 {
            0 => a.mul64mu_add_mulgen_vartime(u0, u1, &sw),
            _ => { let mut r = a; r.set_mul64mu_add_mulgen_vartime(u0, u1, &sw); r }
        })
    }
    fn zeta(a: Self, neg: u32) -> Option<Self> { Some(a.zeta(neg)) }
    fn split_mu(k: &[u8], odd: bool) -> Option<(u128, u32, u128, u32)> {
        let s = crrl::gls254::Scalar::decode_reduce(k);
        Some(if odd { crrl::gls254::Point::split_mu_odd(&s) } else { crrl::gls254::Point::split_mu(&s) })
    }
    fn special_encodings() -> Vec<Vec<u8>> {
        let mut one = vec![0u8; 32]; one[0] = 1;
        let mut u = vec![0u8; 32]; u[16] = 1;
        vec![vec![0u8; 32], one, u]
    }
}

impl GroupApi for crrl::jq255s::Point {
    const NAME: &'static str = "jq255s";
    const SC_LEN: usize = 32;
    fn order() -> BigUint { hexn("400000000000000000000000000000002acf567a912b7f03dcf2ac65396152c7") }
    group_common!(crrl::jq255s::Point, crrl::jq255s::Scalar);
    mamv_std!(crrl::jq255s::Scalar);
    mul_small_std!();
    mul128_std!(crrl::jq255s::Scalar);
    fn encode(&self) -> Vec<u8> { crrl::jq255s::Point::encode(*self).to_vec() }
    fn set_condneg(d: &mut Self, ctl: u32) -> bool { d.set_condneg(ctl); true }
    fn enc_len() -> usize { 32 }
    fn special_encodings() -> Vec<Vec<u8>> {
        let mut three = vec![0u8; 32]; three[0] = 3;
        vec![vec![0u8; 32], three]
    }
}

// ------------------------------------------------------------------------

const NREG: usize = 12;
const CTL: [u32; 2] = [0, 0xFFFFFFFF];

struct Mach<'a, G: GroupApi> {
    regs: [G; NREG],
    tr: &'a mut Trace,
}

impl<'a, G: GroupApi> Mach<'a, G> {
    fn new(tr: &'a mut Trace) -> Self {
        tr.emit(Ev::new("init").s("grp", G::NAME));
        Mach { regs: [G::neutral(); NREG], tr }
    }
    fn put(&mut self, dst: usize, e: Ev, r: Result<G, String>) -> bool {
        let e = e.n("dst", dst as i64);
        match r {
            Ok(p) => match guarded(move || (p.encode(), p.encode_c())) {
                Ok((enc, encc)) => {
                    let e = e.b("out", &enc);
                    let e = match encc { Some(c) => e.b("outc", &c), None => e };
                    self.tr.emit(e); self.regs[dst] = p; true
                }
                Err(m) => { self.tr.emit(e.s("panic", &m)); false }
            },
            Err(m) => { self.tr.emit(e.s("panic", &m)); false }
        }
    }
    fn cst(&mut self, dst: usize, name: &str) -> bool {
        let p = if name == "BASE" { G::base() } else { G::neutral() };
        self.put(dst, Ev::new("const").s("name", name), Ok(p))
    }
    fn decode(&mut self, dst: usize, b: &[u8]) -> bool {
        let bb = b.to_vec();
        let b2 = b.to_vec();
        let e = Ev::new("decode").b("in", b);
        let e = match guarded(move || G::set_decode_status(&b2)) { Ok(w) => e.st("st", w), Err(m) => e.s("stpanic", &m) };
        match guarded(move || G::decode(&bb)) {
            Ok(Some(p)) => self.put(dst, e.t("some", true), Ok(p)),
            Ok(None) => { self.tr.emit(e.t("some", false).n("dst", dst as i64)); true }
            Err(m) => self.put(dst, e, Err(m)),
        }
    }
    fn bin(&mut self, op: &str, dst: usize, a: usize, b: usize, v: u32) -> bool {
        let (x, y) = (self.regs[a], self.regs[b]);
        let sub = op == "sub";
        let r = guarded(move || if sub { G::sub(x, y, v) } else { G::add(x, y, v) });
        self.put(dst, Ev::new(op).n("a", a as i64).n("b", b as i64).n("v", v as i64), r)
    }
    fn un(&mut self, op: &str, dst: usize, a: usize, v: u32) -> bool {
        let x = self.regs[a];
        let neg = op == "neg";
        let r = guarded(move || if neg { G::neg(x, v) } else { G::double(x, v) });
        self.put(dst, Ev::new(op).n("a", a as i64).n("v", v as i64), r)
    }
    fn xdouble(&mut self, dst: usize, a: usize, n: u32) -> bool {
        let x = self.regs[a];
        let r = guarded(move || G::xdouble(x, n));
        self.put(dst, Ev::new("xdouble").n("a", a as i64).n("n", n as i64), r)
    }
    fn mul_small(&mut self, dst: usize, a: usize, n: u64, v: u32) -> bool {
        let x = self.regs[a];
        let e = Ev::new("mul_small").n("a", a as i64).b("k", &trim(&n.to_le_bytes())).n("v", v as i64);
        match guarded(move || G::mul_small(x, n, v)) {
            Ok(None) => true,
            Ok(Some(p)) => self.put(dst, e, Ok(p)),
            Err(m) => self.put(dst, e, Err(m)),
        }
    }
    fn mul(&mut self, dst: usize, a: usize, k: &[u8], v: u32) -> bool {
        let x = self.regs[a];
        let kk = k.to_vec();
        let r = guarded(move || G::mul(x, &kk, v));
        self.put(dst, Ev::new("mul").n("a", a as i64).b("k", k).n("v", v as i64), r)
    }
    fn mulgen(&mut self, dst: usize, k: &[u8], v: u32) -> bool {
        let kk = k.to_vec();
        let r = guarded(move || G::mulgen(&kk, v));
        self.put(dst, Ev::new("mulgen").b("k", k).n("v", v as i64), r)
    }
    fn mamv(&mut self, dst: usize, a: usize, u: &[u8], w: &[u8], v: u32) -> bool {
        let x = self.regs[a];
        let (uu, ww) = (u.to_vec(), w.to_vec());
        match guarded(move || G::mamv(x, &uu, &ww, v)) {
            Ok(None) => true,
            Ok(Some(p)) => self.put(dst, Ev::new("mul_add_mulgen_vartime").n("a", a as i64).b("u", u).b("v", w), Ok(p)),
            Err(m) => self.put(dst, Ev::new("mul_add_mulgen_vartime").n("a", a as i64).b("u", u).b("v", w), Err(m)),
        }
    }
    fn map(&mut self, dst: usize, b: &[u8]) -> bool {
        let bb = b.to_vec();
        let e = Ev::new("one_way_map").b("in", b);
        match guarded(move || G::map(&bb)) {
            Ok(None) => true,
            Ok(Some(p)) => self.put(dst, e, Ok(p)),
            Err(m) => self.put(dst, e, Err(m)),
        }
    }
    fn verify_helper(&mut self, q: usize, r: usize, s: &[u8], k: &[u8]) {
        let (pq, pr) = (self.regs[q], self.regs[r]);
        let (ss, kk) = (s.to_vec(), k.to_vec());
        let e = Ev::new("verify_helper").n("a", q as i64).n("b", r as i64).b("s", s).b("k", k);
        match guarded(move || G::verify_helper(pq, pr, &ss, &kk)) {
            Ok(None) => {}
            Ok(Some(res)) => self.tr.emit(e.t("res", res)),
            Err(m) => self.tr.emit(e.s("panic", &m)),
        }
    }
    fn mul128(&mut self, dst: usize, a: usize, u: u128, w: &[u8], v: u32) -> bool {
        let x = self.regs[a];
        let ww = w.to_vec();
        let e = Ev::new("mul128_add_mulgen_vartime").n("a", a as i64).b("u", &trim(&u.to_le_bytes())).b("v", w);
        match guarded(move || G::mul128(x, u, &ww, v)) {
            Ok(None) => true,
            Ok(Some(p)) => self.put(dst, e, Ok(p)),
            Err(m) => self.put(dst, e, Err(m)),
        }
    }
    fn mul64mu(&mut self, dst: usize, a: usize, u0: u64, u1: u64, w: &[u8], v: u32) -> bool {
        let x = self.regs[a];
        let ww = w.to_vec();
        let e = Ev::new("mul64mu_add_mulgen_vartime").n("a", a as i64).b("u0", &trim(&u0.to_le_bytes()))
            .b("u1", &trim(&u1.to_le_bytes())).b("v", w);
        match guarded(move || G::mul64mu(x, u0, u1, &ww, v)) {
            Ok(None) => true,
            Ok(Some(p)) => self.put(dst, e, Ok(p)),
            Err(m) => self.put(dst, e, Err(m)),
        }
    }
    fn encode(&mut self, a: usize) {
        let x = self.regs[a];
        let e = Ev::new("encode").n("a", a as i64);
        let e = match guarded(move || (x.encode(), x.encode_c())) {
            Ok((o, oc)) => { let e = e.b("out", &o); match oc { Some(c) => e.b("outc", &c), None => e } }
            Err(m) => e.s("panic", &m),
        };
        self.tr.emit(e);
    }
    fn zeta(&mut self, dst: usize, a: usize, neg: u32) -> bool {
        let x = self.regs[a];
        let e = Ev::new("zeta").n("a", a as i64).st("ctl", neg);
        match guarded(move || G::zeta(x, neg)) {
            Ok(None) => true,
            Ok(Some(p)) => self.put(dst, e, Ok(p)),
            Err(m) => self.put(dst, e, Err(m)),
        }
    }
    fn split_mu(&mut self, k: &[u8], odd: bool) {
        let kk = k.to_vec();
        let e = Ev::new(if odd { "split_mu_odd" } else { "split_mu" }).b("k", k);
        match guarded(move || G::split_mu(&kk, odd)) {
            Ok(None) => {}
            Ok(Some((n0, s0, n1, s1))) => self.tr.emit(e.b("n0", &n0.to_le_bytes()).st("s0", s0).b("n1", &n1.to_le_bytes()).st("s1", s1)),
            Err(m) => self.tr.emit(e.s("panic", &m)),
        }
    }
    fn structure(&mut self, a: usize) {
        let x = self.regs[a];
        if let Ok(Some(w)) = guarded(move || G::has_low_order(x)) {
            self.tr.emit(Ev::new("has_low_order").n("a", a as i64).st("st", w));
        }
        match guarded(move || G::is_in_subgroup(x)) {
            Ok(Some(w)) => self.tr.emit(Ev::new("is_in_subgroup").n("a", a as i64).st("st", w)),
            Ok(None) => {}
            Err(m) => self.tr.emit(Ev::new("is_in_subgroup").n("a", a as i64).s("panic", &m)),
        }
        match guarded(move || G::mont_u(x)) {
            Ok(Some((u, px, pz))) => self.tr.emit(Ev::new("to_montgomery_u").n("a", a as i64).b("u", &u).b("px", &px).b("pz", &pz)),
            Ok(None) => {}
            Err(m) => self.tr.emit(Ev::new("to_montgomery_u").n("a", a as i64).s("panic", &m)),
        }
    }
    fn coords(&mut self, a: usize) -> Option<(Vec<u8>, Vec<u8>, Vec<u8>)> {
        let x = self.regs[a];
        match guarded(move || G::to_affine(x)) {
            Ok(Some((ax, ay, r))) => self.tr.emit(Ev::new("to_affine").n("a", a as i64).b("x", &ax).b("y", &ay).st("r", r)),
            Ok(None) => return None,
            Err(m) => self.tr.emit(Ev::new("to_affine").n("a", a as i64).s("panic", &m)),
        }
        match guarded(move || G::to_projective(x)) {
            Ok(Some((px, py, pz))) => {
                self.tr.emit(Ev::new("to_projective").n("a", a as i64).b("x", &px).b("y", &py).b("z", &pz));
                Some((px, py, pz))
            }
            Ok(None) => None,
            Err(m) => { self.tr.emit(Ev::new("to_projective").n("a", a as i64).s("panic", &m)); None }
        }
    }
    fn from_affine(&mut self, dst: usize, x: &[u8], y: &[u8]) -> bool {
        let (xx, yy) = (x.to_vec(), y.to_vec());
        let e = Ev::new("from_affine").b("x", x).b("y", y);
        match guarded(move || G::from_affine(&xx, &yy)) {
            Ok(None) => true,
            Ok(Some(Some(p))) => self.put(dst, e.t("some", true), Ok(p)),
            Ok(Some(None)) => { self.tr.emit(e.t("some", false).n("dst", dst as i64)); true }
            Err(m) => self.put(dst, e, Err(m)),
        }
    }
    fn from_projective(&mut self, dst: usize, x: &[u8], y: &[u8], z: &[u8]) -> bool {
        let (xx, yy, zz) = (x.to_vec(), y.to_vec(), z.to_vec());
        let e = Ev::new("from_projective").b("x", x).b("y", y).b("z", z);
        match guarded(move || G::from_projective(&xx, &yy, &zz)) {
            Ok(None) => true,
            Ok(Some(Some(p))) => self.put(dst, e.t("some", true), Ok(p)),
            Ok(Some(None)) => { self.tr.emit(e.t("some", false).n("dst", dst as i64)); true }
            Err(m) => self.put(dst, e, Err(m)),
        }
    }
    fn xseq(&mut self, a: usize, b: usize, n: usize) {
        let (x, y) = (self.regs[a], self.regs[b]);
        let e = Ev::new("xseq").n("a", a as i64).n("b", b as i64).n("n", n as i64);
        match crate::out::guarded_timeout(20, move || G::xseq(x, y, n)) {
            Ok(None) => {}
            Ok(Some((xs, xn, xn1))) => {
                self.tr.emit(e.bb("xs", &xs).b("xn", &xn).b("xn1", &xn1));
            }
            Err(m) => self.tr.emit(e.s("panic", &m)),
        }
    }
    fn equals(&mut self, a: usize, b: usize) {
        let (x, y) = (self.regs[a], self.regs[b]);
        let e = Ev::new("equals").n("a", a as i64).n("b", b as i64);
        let e = match guarded(move || G::equals(x, y)) { Ok(w) => e.st("st", w), Err(m) => e.s("panic", &m) };
        self.tr.emit(e);
    }
    fn isneutral(&mut self, a: usize) {
        let x = self.regs[a];
        let e = Ev::new("isneutral").n("a", a as i64);
        let e = match guarded(move || G::isneutral(x)) { Ok(w) => e.st("st", w), Err(m) => e.s("panic", &m) };
        self.tr.emit(e);
    }
    fn set_cond(&mut self, dst: usize, a: usize, ctl: u32) -> bool {
        let (mut d, x) = (self.regs[dst], self.regs[a]);
        let r = guarded(move || { G::set_cond(&mut d, &x, ctl); d });
        self.put(dst, Ev::new("set_cond").n("a", a as i64).st("ctl", ctl), r)
    }
    fn select(&mut self, dst: usize, a0: usize, a1: usize, ctl: u32) -> bool {
        let (x, y) = (self.regs[a0], self.regs[a1]);
        let r = guarded(move || G::select(&x, &y, ctl));
        self.put(dst, Ev::new("select").n("a0", a0 as i64).n("a1", a1 as i64).st("ctl", ctl), r)
    }
    fn condneg(&mut self, dst: usize, a: usize, ctl: u32) -> bool {
        let mut d = self.regs[a];
        match guarded(move || { let ok = G::set_condneg(&mut d, ctl); (ok, d) }) {
            Ok((false, _)) => true,
            Ok((true, d)) => self.put(dst, Ev::new("set_condneg").n("a", a as i64).st("ctl", ctl), Ok(d)),
            Err(m) => self.put(dst, Ev::new("set_condneg").n("a", a as i64).st("ctl", ctl), Err(m)),
        }
    }
}

fn to_le(x: &BigUint, n: usize) -> Vec<u8> {
    let mut b = x.to_bytes_le();
    if b == [0] { b.clear(); }
    b.resize(n.max(b.len()), 0);
    b
}

/// scalar classes: boundary values and digit patterns that stress signed-digit
/// recoding (runs of 15/16/17/31 in 5-bit chunks, all-ones), endomorphism
/// split boundaries are drawn from the same set plus random
pub fn scalar_classes<G: GroupApi>(rng: &mut Rng, count: usize) -> Vec<Vec<u8>> {
    let n = G::order();
    let one = BigUint::from(1u32);
    let len = G::SC_LEN;
    let mut v: Vec<BigUint> = Vec::new();
    for x in [0u32, 1, 2, 3, 15, 16, 17, 31, 32, 33] { v.push(BigUint::from(x)); }
    for x in [1u32, 2, 3] { v.push(&n - x); }
    v.push((&n - 1u32) / 2u32); v.push((&n + 1u32) / 2u32);
    v.push(n.clone()); v.push(&n + 1u32);            // non-canonical inputs to decode_reduce
    v.push((&one << (8 * len)) - 1u32);
    let bits = n.bits() as usize;
    for k in [1usize, 4, 5, 63, 64, 65, 127, 128, 129, bits / 2, bits - 2, bits - 1] {
        v.push((&one << k) % &n); v.push(((&one << k) - 1u32) % &n); v.push(((&one << k) + 1u32) % &n);
    }
    // 5-bit and 4-bit digit patterns
    for w in [4usize, 5] {
        for d in [(1u32 << (w - 1)) - 1, 1u32 << (w - 1), (1u32 << (w - 1)) + 1, (1u32 << w) - 1] {
            let mut x = BigUint::from(0u32);
            let mut i = 0;
            while i * w < bits { x += BigUint::from(d) << (i * w); i += 1; }
            v.push(x % &n);
        }
    }
    while v.len() < count {
        let mut x = BigUint::from_bytes_le(&rng.bytes(len));
        match rng.below(5) {
            0 => { // random digits from a small alphabet per 5-bit chunk
                x = BigUint::from(0u32);
                let mut i = 0;
                while i * 5 < bits { x += BigUint::from(*rng.pick(&[0u32, 1, 15, 16, 17, 31])) << (i * 5); i += 1; }
            }
            1 => { x = x >> rng.below(bits); }
            2 => { x = &n - ((x >> (rng.below(bits - 1) + 1)) % &n) - 1u32; }
            _ => {}
        }
        v.push(x % &n);
    }
    v.truncate(count.max(40));
    let mut out: Vec<Vec<u8>> = v.into_iter().map(|x| to_le(&x, len)).collect();
    out.extend(endo_boundary_scalars::<G>(rng, count / 2));
    out
}

/// For the groups whose scalar multiplication splits k along an endomorphism
/// (k = k0 + k1*mu mod r with mu^2 = -1, or lambda^2 + lambda + 1 = 0), the split
/// rounds k*e/r for the coefficients e of a short basis of the lattice
/// {(a, b) : a + b*mu = 0 mod r}.  Scalars for which such a quotient sits on a
/// 64-bit word boundary (low word 0 or all-ones, either side of the rounding
/// correction) exercise the carry/borrow propagation of that computation.
pub fn endo_boundary_scalars<G: GroupApi>(rng: &mut Rng, count: usize) -> Vec<Vec<u8>> {
    let r = G::order();
    let ri = BigInt::from_biguint(Sign::Plus, r.clone());
    let one = BigUint::from(1u32);
    let order = match G::NAME { "jq255e" | "gls254" => 4u32, "secp256k1" => 3u32, _ => return Vec::new() };
    // an element of multiplicative order 4 (resp. 3) modulo r
    let mut g = 2u32;
    let mu = loop {
        let m = BigUint::from(g).modpow(&((&r - 1u32) / order), &r);
        let sq = (&m * &m) % &r;
        if (order == 4 && sq == &r - 1u32) || (order == 3 && m != one) { break m; }
        g += 1;
    };
    // Lagrange-Gauss reduction of [(r, 0), (-mu, 1)]
    let mut u = (ri.clone(), BigInt::from(0));
    let mut v = (-BigInt::from_biguint(Sign::Plus, mu), BigInt::from(1));
    let norm = |w: &(BigInt, BigInt)| &w.0 * &w.0 + &w.1 * &w.1;
    loop {
        if norm(&u) < norm(&v) { std::mem::swap(&mut u, &mut v); }
        let nv = norm(&v);
        let sp = &u.0 * &v.0 + &u.1 * &v.1;
        // nearest integer to sp / nv
        let two = BigInt::from(2);
        let (num, den) = (&sp * &two + &nv, &nv * &two);     // den > 0
        let mut q = &num / &den;                              // truncates toward zero
        if num < BigInt::from(0) && &q * &den != num { q -= 1; }
        if q == BigInt::from(0) { break; }
        u = (&u.0 - &q * &v.0, &u.1 - &q * &v.1);
    }
    let es: Vec<BigUint> = [&u.0, &u.1, &v.0, &v.1].iter().map(|x| x.magnitude().clone())
        .filter(|x| *x > one).collect();
    let mut out = Vec::new();
    // scalars whose split (k0, k1) sits near a corner of the fundamental cell of the reduced basis: the halves reach
    // their largest magnitudes (top digit of their recoding) with every sign combination.  (k0, k1) = s*u + t*v with
    // |s|, |t| just below 1/2; the scalar is k0 + k1*mu for either sign of mu.
    {
        let mu_i = BigInt::from_biguint(Sign::Plus, {
            let mut g = 2u32;
            loop { let m = BigUint::from(g).modpow(&((&r - 1u32) / order), &r);
                   let sq = (&m * &m) % &r;
                   if (order == 4 && sq == &r - 1u32) || (order == 3 && m != one) { break m; } g += 1; } });
        let half = BigInt::from(1) << 63;
        let modr = |x: BigInt| -> BigUint { let m = ((x % &ri) + &ri) % &ri; m.to_biguint().unwrap() };
        for i in 0..(count / 3).max(8) {
            let e1 = 1 + rng.below(40); let e2 = 1 + rng.below(40);
            let j1 = BigInt::from((rng.u64() >> e1) | 1); let j2 = BigInt::from((rng.u64() >> e2) | 1);
            let sg = |b: bool, x: BigInt| if b { -x } else { x };
            let sn = sg(i & 1 != 0, &half - &j1);          // s * 2^64
            let tn = sg(i & 2 != 0, &half - &j2);          // t * 2^64
            let k0: BigInt = (&sn * &u.0 + &tn * &v.0) >> 64;
            let k1: BigInt = (&sn * &u.1 + &tn * &v.1) >> 64;
            let mu_s = if i & 4 != 0 { -mu_i.clone() } else { mu_i.clone() };
            out.push(to_le(&modr(&k0 + &k1 * &mu_s), G::SC_LEN));
        }
        // scalars with a prescribed split (k0, k1) well inside the cell: one half negative with its low 32 / 64 / 96
        // bits zero (sign handling and limb carries of the absolute values), powers of two, tiny halves
        let hb = (r.bits() as usize) / 2 - 4;
        for i in 0..(count / 3).max(10) {
            let z = [32usize, 64, 96, 32, 64][i % 5];
            let rnd = |rng: &mut Rng| BigInt::from_biguint(Sign::Plus, BigUint::from_bytes_le(&rng.bytes(hb / 8)));
            let mut a: BigInt = ((rnd(rng) >> z) << z) + (if i % 7 == 0 { BigInt::from(0) } else { BigInt::from(0) });
            if a == BigInt::from(0) { a = BigInt::from(1) << z; }
            let b: BigInt = match i % 4 { 0 => rnd(rng), 1 => BigInt::from(1), 2 => BigInt::from(1) << (hb - 1), _ => (rnd(rng) >> z) << z };
            let (k0, k1) = match i % 6 { 0 => (-a.clone(), b.clone()), 1 => (b.clone(), -a.clone()), 2 => (-a.clone(), -b.clone()),
                                         3 => (-a.clone(), -a.clone()), 4 => (a.clone(), -b.clone()), _ => (-b.clone(), a.clone()) };
            let mu_s = if i & 8 != 0 { -mu_i.clone() } else { mu_i.clone() };
            out.push(to_le(&modr(&k0 + &k1 * &mu_s), G::SC_LEN));
        }
    }
    while out.len() < count {
        let e = rng.pick(&es).clone();
        let eb = e.bits() as usize;
        if eb <= 66 { continue; }
        let m = BigUint::from_bytes_le(&rng.bytes(16)) % (&one << (eb - 65)) + 1u32;
        let t = (m << 64) + 1u32 - BigUint::from(rng.below(3) as u32);     // m*2^64 + {1, 0, -1}
        let k = if rng.chance(1, 2) {
            let k = (&t * &r + &e - 1u32) / &e;                              // ceil(t*r/e): k*e/r just above t
            if rng.chance(1, 4) { k + 1u32 } else { k }
        } else {
            // k*e + (r-1)/2 just above / below t*2^s with 2^s the power of two next to r: the quotient
            // estimated with 2^s in place of r differs from the true rounded quotient (the +-1 correction applies)
            let sh = r.bits() as usize - rng.below(2);
            let num = (&t << sh) + &e;                                        // keep the subtraction positive
            let half = (&r - 1u32) >> 1;
            if num <= &half + &e { continue; }
            let k = (&num - &half - &e + &e - 1u32) / &e;                     // ceil((t*2^s - (r-1)/2)/e)
            match rng.below(4) { 0 => k + 1u32, 1 => if k > one { k - 1u32 } else { k }, _ => k }
        };
        out.push(to_le(&(k % &r), G::SC_LEN));
    }
    out
}

fn small_ints() -> Vec<u64> {
    vec![0, 1, 2, 3, 4, 5, 6, 7, 8, 15, 16, 17, 31, 32, 255, 256, 65535, 0xFFFFFFFF, 0x100000000,
         0x7FFFFFFFFFFFFFFF, 0x8000000000000000, 0xFFFFFFFFFFFFFFFF, 0xFFFFFFFFFFFFFFFE]
}

pub struct Plan {
    pub scripts: usize,
    pub len: usize,
    pub scalars: usize,
    pub codec_random: usize,
    pub profile: String,
    pub tables_stride: usize,
}

/// operand classes for the group law: neutral, generator, opposites, doubles,
/// low-order and special points, their sums with generic points
fn load_operands<G: GroupApi>(m: &mut Mach<G>, rng: &mut Rng) -> bool {
    let sp = G::special_encodings();
    let mut ok = m.cst(0, "NEUTRAL") && m.cst(1, "BASE");
    ok = ok && m.un("neg", 2, 1, 0) && m.un("double", 3, 1, 1);
    let k = rng.bytes(G::SC_LEN);
    ok = ok && m.mulgen(4, &k, 0);
    // special points in 5.. and sums with generic points
    let mut r = 5;
    for _ in 0..3 {
        let e = rng.pick(&sp).clone();
        ok = ok && m.decode(r, &e);
        r += 1;
    }
    ok = ok && m.bin("add", 8, 4, 5, 0) && m.bin("add", 9, 1, 6, 1) && m.bin("sub", 10, 4, 7, 2);
    ok = ok && m.un("neg", 11, 4, 1);
    // other representatives of the same elements (quotient groups): D = P - decode(encode(P)) is a
    // representative of the neutral that no decoder produces; G + D another representative of G
    if ok && rng.chance(1, 2) {
        let enc = m.regs[4].encode();
        ok = m.decode(2, &enc) && m.bin("sub", 3, 4, 2, 0) && m.bin("add", 2, 1, 3, 0);
        if ok { m.isneutral(3); m.equals(3, 0); m.equals(0, 3); m.equals(2, 1); m.isneutral(2); m.encode(3); }
    }
    ok
}

fn random_op<G: GroupApi>(m: &mut Mach<G>, rng: &mut Rng, profile: &str, scalars: &[Vec<u8>]) -> bool {
    let d = rng.below(NREG);
    let a = rng.below(NREG);
    let b = if rng.chance(1, 4) { a } else { rng.below(NREG) };
    let v = rng.u64() as u32;
    let pick = match profile {
        "law" => *rng.pick(&[0, 0, 0, 1, 1, 2, 3, 3, 4, 5, 6, 6, 7, 8, 12]),
        "select" => *rng.pick(&[0, 1, 3, 6, 7, 8, 9, 9, 10, 10, 11, 11]),
        _ => rng.below(13),
    };
    match pick {
        0 => m.bin("add", d, a, b, v),
        1 => m.bin("sub", d, a, b, v),
        2 => m.un("neg", d, a, v),
        3 => m.un("double", d, a, v),
        4 => m.xdouble(d, a, *rng.pick(&[0u32, 1, 2, 3, 5, 8, 64])),
        5 => m.mul_small(d, a, *rng.pick(&small_ints()), v),
        6 => { m.encode(a); true }
        7 => { m.equals(a, b); true }
        8 => { m.isneutral(a); true }
        9 => m.set_cond(d, a, *rng.pick(&CTL)),
        10 => m.select(d, a, b, *rng.pick(&CTL)),
        11 => m.condneg(d, a, *rng.pick(&CTL)),
        _ => m.mul(d, a, &rng.pick(scalars).clone(), v),
    }
}

fn run_law<G: GroupApi>(tr: &mut Trace, rng: &mut Rng, plan: &Plan) {
    let scalars = scalar_classes::<G>(rng, 40);
    // systematic part: every special encoding against itself, its opposite, the neutral, a generic point
    {
        let sp = G::special_encodings();
        let mut m = Mach::<G>::new(tr);
        let mut ok = m.cst(0, "NEUTRAL") && m.cst(1, "BASE") && m.mulgen(2, &rng.bytes(G::SC_LEN), 0);
        for e in sp.iter() {
            if !ok { m = Mach::<G>::new(tr); ok = m.cst(0, "NEUTRAL") && m.cst(1, "BASE") && m.mulgen(2, &rng.bytes(G::SC_LEN), 0); }
            ok = ok && m.decode(3, e);
            ok = ok && m.un("neg", 4, 3, 0) && m.bin("add", 5, 3, 3, 0) && m.un("double", 6, 3, 1)
                && m.bin("add", 7, 3, 4, 1) && m.bin("sub", 7, 3, 3, 2) && m.bin("add", 8, 3, 0, 0)
                && m.bin("add", 8, 0, 3, 1) && m.bin("add", 9, 3, 2, 2) && m.bin("sub", 10, 9, 2, 3)
                && m.xdouble(11, 3, 3) && m.mul_small(11, 3, 8, 0) && m.mul_small(11, 3, 5, 1)
                && m.bin("add", 11, 9, 9, 0) && m.un("double", 10, 9, 0);
            if ok { m.equals(10, 11); m.equals(3, 4); m.isneutral(7); m.isneutral(3); m.equals(5, 6); }
        }
        // neutral and generator corner cases
        if ok {
            let _ = m.bin("add", 3, 0, 0, 0) && m.un("double", 4, 0, 0) && m.un("neg", 5, 0, 0)
                && m.bin("sub", 6, 1, 1, 0) && m.bin("add", 7, 6, 1, 0) && m.un("double", 8, 6, 1)
                && m.xdouble(9, 0, 5) && m.mul_small(10, 1, 0, 0) && m.mul_small(11, 0, 7, 1);
            m.isneutral(6); m.isneutral(8); m.isneutral(10); m.equals(7, 1);
        }
        // small multiples: k*P by mul_small against repeated addition
        let mut m = Mach::<G>::new(tr);
        if m.cst(1, "BASE") && m.mulgen(2, &rng.bytes(G::SC_LEN), 1) {
            for n in small_ints() {
                if !(m.mul_small(3, 1, n, n as u32) && m.mul_small(4, 2, n, (n >> 1) as u32)) { break; }
            }
        }
    }
    for _ in 0..plan.scripts {
        let mut m = Mach::<G>::new(tr);
        let mut ok = load_operands(&mut m, rng);
        let mut i = 0;
        while ok && i < plan.len { ok = random_op(&mut m, rng, &plan.profile, &scalars); i += 1; }
        if ok { for r in 0..NREG { m.encode(r); } }
    }
}

fn run_smul<G: GroupApi>(tr: &mut Trace, rng: &mut Rng, plan: &Plan) {
    let scalars = scalar_classes::<G>(rng, plan.scalars);
    let sp = G::special_encodings();
    let mut m = Mach::<G>::new(tr);
    let mut ok = m.cst(0, "NEUTRAL") && m.cst(1, "BASE") && m.mulgen(2, &rng.bytes(G::SC_LEN), 0);
    // a point outside the prime-order subgroup where the type admits one
    ok = ok && m.decode(3, &rng.pick(&sp).clone()) && m.bin("add", 4, 2, 3, 0);
    for (i, k) in scalars.iter().enumerate() {
        if !ok {
            m = Mach::<G>::new(tr);
            ok = m.cst(0, "NEUTRAL") && m.cst(1, "BASE") && m.mulgen(2, &rng.bytes(G::SC_LEN), 0)
                && m.decode(3, &rng.pick(&sp).clone()) && m.bin("add", 4, 2, 3, 0);
        }
        let v = i as u32;
        ok = ok && m.mulgen(5, k, v) && m.mul(6, 1, k, v) && m.mul(7, 2, k, v >> 1);
        if i % 4 == 0 { ok = ok && m.mul(8, 4, k, v) && m.mul(9, 0, k, v) && m.mul(9, 3, k, v); }
        if ok { m.equals(5, 6); }
    }
    // multiplications whose running accumulator passes exactly through a special point T (x = 0, low order, ...) right
    // after a window's doublings: P = T / 2^(w*j) (scalar inverse modulo the order, computed through the API) and
    // multipliers m * 2^(w*j) + low with small m, for window widths 4 and 5 and ranks j = 1, 2, 3
    let n = G::order();
    for (ti, t) in sp.iter().enumerate() {
        for (w, j) in [(5usize, 1usize), (4, 1), (5, 2), (5, 3), (4, 3)] {
            if (ti + w + j) % 2 == 1 && plan.scalars < 100 { continue; }
            let sh = BigUint::from(1u32) << (w * j);
            let inv = sh.modpow(&(&n - 2u32), &n);
            m = Mach::<G>::new(tr);
            if !(m.decode(3, t) && m.mul(4, 3, &to_le(&inv, G::SC_LEN), 0)) { continue; }
            let mut ks: Vec<BigUint> = vec![sh.clone(), &sh + 1u32, &sh * 2u32, &sh * 3u32 + 7u32, &sh * 17u32, (&sh * 16u32) - 1u32, &n - &sh];
            ks.push(&sh + (BigUint::from_bytes_le(&rng.bytes(8)) % &sh));
            ks.push((BigUint::from_bytes_le(&rng.bytes(G::SC_LEN)) % &n >> (w * j)) << (w * j) | &sh);
            for (i, k) in ks.iter().enumerate() {
                if !m.mul(5, 4, &to_le(&(k % &n), G::SC_LEN), i as u32) { break; }
            }
            let _ = m.xdouble(6, 4, (w * j) as u32) && m.xdouble(7, 4, (w * j - 1) as u32) && m.un("double", 8, 7, 0);
            m.equals(6, 3); m.equals(8, 3);
        }
    }
}

/// Scalars whose signed-digit recoding has a single non-zero digit: d * 2^(w*j) for
/// every window position j and every digit d in 1..2^(w-1) (w = 4 and 5), and their
/// negations -- each selects one precomputed-table entry in isolation, so a wrong
/// table constant cannot cancel.  `stride` samples the list (1 = all).
fn run_tables<G: GroupApi>(tr: &mut Trace, rng: &mut Rng, plan: &Plan) {
    let n = G::order();
    let bits = n.bits() as usize;
    let mut ks: Vec<BigUint> = Vec::new();
    for w in [4usize, 5] {
        let mut j = 0;
        while j * w < bits {
            for d in 1..=(1u32 << (w - 1)) {
                let k = (BigUint::from(d) << (j * w)) % &n;
                ks.push((&n - &k) % &n);
                ks.push(k);
            }
            j += 1;
        }
    }
    let stride = plan.tables_stride.max(1);
    let off = rng.below(stride);
    let mut m = Mach::<G>::new(tr);
    let mut ok = m.cst(0, "NEUTRAL");
    for (i, k) in ks.iter().enumerate() {
        if i % stride != off { continue; }
        if !ok { m = Mach::<G>::new(tr); ok = m.cst(0, "NEUTRAL"); }
        let kb = to_le(k, G::SC_LEN);
        ok = ok && m.mulgen(1, &kb, i as u32);
        // tables read only by the variable-time paths: u = 0
        if i % 3 == 0 { ok = ok && m.mamv(2, 0, &vec![0u8; G::SC_LEN], &kb, i as u32); }
    }
}

/// verification helper on challenges k = +-2^j/m and +-m/2^j (j = 127, 128; thorough: 63..129):
/// the rational reconstruction of k has a coordinate of magnitude exactly 2^j, where
/// truncation to 128 bits and sign handling meet.  For each k: the equation made true
/// (R = s*G - k*Q), and made false (R + G, R = neutral).
fn run_vh_pow2<G: GroupApi>(tr: &mut Trace, rng: &mut Rng, plan: &Plan) {
    if G::verify_helper(G::neutral(), G::neutral(), &[0u8; 1], &[0u8; 1]).is_none() { return; }
    let n = G::order();
    let inv = |x: &BigUint| x.modpow(&(&n - 2u32), &n);
    let (js, ms): (Vec<usize>, Vec<u32>) = if plan.scalars > 100 {
        (vec![63, 64, 65, 126, 127, 128, 129], vec![1, 3, 5, 7, 255]) } else { (vec![127, 128], vec![1, 3]) };
    let hw = (n.bits() as usize + 1) / 2;
    let js: Vec<usize> = if hw > 130 { let mut t = js.clone(); t.extend_from_slice(&[hw - 1, hw, hw + 1]); t } else { js };
    let mut m = Mach::<G>::new(tr);
    let mut ok = m.cst(0, "NEUTRAL") && m.cst(1, "BASE") && m.mulgen(2, &rng.bytes(G::SC_LEN), 0);
    // coefficients just below a power of two (2^j - t, t odd and small): the wNAF recoding of such a value carries all the
    // way up; and the trivial challenges 1, 2, n - 1
    {
        let mut ks: Vec<BigUint> = vec![BigUint::from(1u32), BigUint::from(2u32), &n - 1u32];
        let hwj = (n.bits() as usize + 1) / 2;
        let mut jj = vec![128usize, hwj]; jj.dedup();
        let mut cnt = 0usize;
        for j in jj { for t in [1u32, 15, 3, 17] { for mm in [1u32, 3] {
            if plan.scalars <= 100 && (t == 3 || t == 17) && mm == 3 { continue; }
            let c = ((BigUint::from(1u32) << j) - t) % &n;
            let mb = BigUint::from(mm);
            cnt += 1;
            let kk = if cnt % 2 == 0 { (&c * inv(&mb)) % &n } else { (&mb * inv(&c)) % &n };
            ks.push(if cnt % 4 < 2 { kk } else { (&n - kk) % &n });
        } } }
        for kk in ks.iter() {
            if !ok { m = Mach::<G>::new(tr); ok = m.cst(0, "NEUTRAL") && m.cst(1, "BASE") && m.mulgen(2, &rng.bytes(G::SC_LEN), 0); if !ok { break; } }
            let k = to_le(kk, G::SC_LEN);
            let s = rng.bytes(G::SC_LEN);
            ok = m.mulgen(8, &s, 0) && m.mul(9, 2, &k, 0) && m.bin("sub", 10, 8, 9, 0);
            if ok { m.verify_helper(2, 10, &s, &k); }
        }
    }
    for j in js { for mm in ms.iter() { for form in 0..2 { for sign in 0..2 {
        if !ok { m = Mach::<G>::new(tr); ok = m.cst(0, "NEUTRAL") && m.cst(1, "BASE") && m.mulgen(2, &rng.bytes(G::SC_LEN), 0); }
        let t = (BigUint::from(1u32) << j) % &n;
        let mb = BigUint::from(*mm);
        let kk = if form == 0 { (&t * inv(&mb)) % &n } else { (&mb * inv(&t)) % &n };
        let k = to_le(&(if sign == 0 { kk } else { (&n - kk) % &n }), G::SC_LEN);
        let s = rng.bytes(G::SC_LEN);
        ok = ok && m.mulgen(8, &s, 0) && m.mul(9, 2, &k, 0) && m.bin("sub", 10, 8, 9, 0) && m.bin("add", 11, 10, 1, 0);
        if ok {
            m.verify_helper(2, 10, &s, &k);
            m.verify_helper(2, 11, &s, &k);
            m.verify_helper(2, 0, &s, &k);
        }
    } } } }
}

/// Gauss reduction of the lattice {(a, b) : a = k*b mod n}: a shortest vector (input selection only).
fn shortest_vector(n: &BigUint, k: &BigUint) -> (BigInt, BigInt) {
    let nn = |v: &(BigInt, BigInt)| &v.0 * &v.0 + &v.1 * &v.1;
    let mut u = (BigInt::from_biguint(Sign::Plus, n.clone()), BigInt::from(0));
    let mut v = (BigInt::from_biguint(Sign::Plus, k.clone()), BigInt::from(1));
    if nn(&u) < nn(&v) { std::mem::swap(&mut u, &mut v); }
    loop {
        // q = round(<u,v> / <v,v>)
        let dot = &u.0 * &v.0 + &u.1 * &v.1;
        let nv = nn(&v);
        if nv == BigInt::from(0) { return u; }
        let two = BigInt::from(2);
        let (num, den) = (&dot * &two + &nv, &nv * &two);
        let mut q = &num / &den;
        if (&num % &den) < BigInt::from(0) { q -= 1; }
        let w = (&u.0 - &q * &v.0, &u.1 - &q * &v.1);
        if nn(&w) >= nn(&v) { return v; }
        u = v; v = w;
    }
}

/// verify_helper on challenges k = c0/c1 (and c1/c0) whose large coefficient sits at the very top of the
/// range a shortest lattice vector can reach (bit length L of sqrt(2n/sqrt(3))): last wNAF digit / carry
/// out of the last window, sign and truncation boundaries.  Candidates are kept only when (c0, c1) really
/// is the shortest vector of the lattice of k (Gauss reduction in the harness; input selection only).
fn run_vh_top<G: GroupApi>(tr: &mut Trace, rng: &mut Rng, plan: &Plan) {
    if G::verify_helper(G::neutral(), G::neutral(), &[0u8; 1], &[0u8; 1]).is_none() { return; }
    let n = G::order();
    let one = BigUint::from(1u32);
    let inv = |x: &BigUint| x.modpow(&(&n - 2u32), &n);
    // bit length of the largest possible coefficient: floor(sqrt(1.1548 n))
    let lmax = (((&n * 11548u32) / 10000u32).sqrt()).bits() as usize;
    let full = plan.scalars > 100;
    let ls: Vec<usize> = if full { vec![lmax - 2, lmax - 1, lmax] } else { vec![lmax - 1, lmax] };
    let mut m = Mach::<G>::new(tr);
    let mut ok = m.cst(0, "NEUTRAL") && m.cst(1, "BASE") && m.mulgen(2, &rng.bytes(G::SC_LEN), 0);
    let mut cnt = 0usize;
    for l in ls {
        for pi in 0..6 {
            // search (c0, c1) of the wanted shape that is the shortest vector of its own lattice
            let mut found: Option<(BigUint, BigUint, BigUint)> = None;
            for _try in 0..400 {
                let c0 = match pi {
                    0 | 1 => (&one << (l - 1)) + (&one << (l - 5)) + (BigUint::from_bytes_le(&rng.bytes(l / 8 + 1)) % (&one << (l - 10))), // top window = 17
                    2 => (&one << (l - 1)) + (&one << (l - 5)) - 1u32 - BigUint::from(rng.u64() >> 20),
                    3 => (&one << (l - 1)) + (BigUint::from_bytes_le(&rng.bytes(l / 8 + 1)) % (&one << (l - 4))),
                    4 => (&one << (l - 1)) + BigUint::from(rng.u64() >> 8),
                    _ => (&one << l) - 1u32 - (BigUint::from_bytes_le(&rng.bytes(l / 8 + 1)) % (&one << (l - 3))),
                };
                let c1bits = *rng.pick(&[2usize, 16, 64, l / 2, l - 6, l - 4]);
                let c1 = (BigUint::from_bytes_le(&rng.bytes(c1bits / 8 + 1)) % (&one << c1bits)) | one.clone();
                if c0 >= n || c1 >= n { continue; }
                let k = ((&c0 % &n) * inv(&c1)) % &n;
                let (sa, sb) = shortest_vector(&n, &k);
                if sa.magnitude() == &c0 && sb.magnitude() == &c1 { found = Some((c0, c1, k)); break; }
            }
            let (_c0, _c1, k0) = match found { Some(x) => x, None => continue };
            for form in 0..2 {
                if !full && pi >= 3 && form == 1 { continue; }
                if !ok { m = Mach::<G>::new(tr); ok = m.cst(0, "NEUTRAL") && m.cst(1, "BASE") && m.mulgen(2, &rng.bytes(G::SC_LEN), 0); if !ok { return; } }
                let kk = if form == 0 { k0.clone() } else { inv(&k0) };
                cnt += 1;
                let k = to_le(&(if cnt % 2 == 0 { kk } else { (&n - kk) % &n }), G::SC_LEN);
                let s = rng.bytes(G::SC_LEN);
                ok = m.mulgen(8, &s, 0) && m.mul(9, 2, &k, 0) && m.bin("sub", 10, 8, 9, 0);
                if ok {
                    m.verify_helper(2, 10, &s, &k);
                    if cnt % 3 == 0 { m.verify_helper(2, 8, &s, &k); }     // R = s*G: false unless k*Q = 0
                }
            }
        }
    }
}

fn run_mamv<G: GroupApi>(tr: &mut Trace, rng: &mut Rng, plan: &Plan) {
    run_vh_pow2::<G>(tr, rng, plan);
    let scalars = scalar_classes::<G>(rng, plan.scalars);
    // endomorphism curves: every lattice-derived boundary scalar (cell corners: largest split halves with every sign
    // combination; quotient-estimate boundaries) as the multiplier u, and its opposite
    {
        let eb = endo_boundary_scalars::<G>(rng, (plan.scalars / 2).max(24));
        if !eb.is_empty() {
            let n = G::order();
            let mut m = Mach::<G>::new(tr);
            let mut ok = m.cst(1, "BASE") && m.mulgen(2, &rng.bytes(G::SC_LEN), 0);
            for (i, u) in eb.iter().enumerate() {
                if !ok { m = Mach::<G>::new(tr); ok = m.cst(1, "BASE") && m.mulgen(2, &rng.bytes(G::SC_LEN), 0); if !ok { break; } }
                let un = to_le(&((&n - BigUint::from_bytes_le(u) % &n) % &n), G::SC_LEN);
                let w = rng.pick(&scalars).clone();
                ok = m.mamv(6, 2, u, &w, i as u32) && m.mamv(7, 2, &un, &w, i as u32);
            }
        }
    }
    let sp = G::special_encodings();
    let mut m = Mach::<G>::new(tr);
    let mut ok = false;
    for i in 0..plan.scalars {
        if !ok {
            m = Mach::<G>::new(tr);
            ok = m.cst(0, "NEUTRAL") && m.cst(1, "BASE") && m.mulgen(2, &rng.bytes(G::SC_LEN), 0)
                && m.un("neg", 3, 1, 0) && m.decode(4, &rng.pick(&sp).clone()) && m.bin("add", 5, 2, 4, 0);
        }
        let u = rng.pick(&scalars).clone();
        let w = if rng.chance(1, 3) { u.clone() } else { rng.pick(&scalars).clone() };
        let a = *rng.pick(&[0usize, 1, 2, 2, 2, 3, 4, 5]);
        ok = ok && m.mamv(6, a, &u, &w, i as u32);
        // 128-bit multiplier variant
        let u128s = [0u128, 1, 2, (1u128 << 64) - 1, 1u128 << 64, (1u128 << 127) - 1, 1u128 << 127,
                     (1u128 << 127) + 1, u128::MAX, u128::MAX - 1, ((rng.u64() as u128) << 64) | rng.u64() as u128];
        ok = ok && m.mul128(7, a, *rng.pick(&u128s), &w, i as u32);
        let u64s = [0u64, 1, 2, (1u64 << 63) - 1, 1u64 << 63, (1u64 << 63) + 1, u64::MAX, u64::MAX - 1, rng.u64(), rng.u64() >> 20];
        ok = ok && m.mul64mu(7, a, *rng.pick(&u64s), *rng.pick(&u64s), &w, i as u32);
        // verification helper: s*G = R + k*Q.  Q = reg a; pick k (often fraction-shaped k = c0/c1),
        // s random; R := s*G - k*Q computed through the API (so the equation holds), then
        // perturbed variants (R + low-order/special point, R + G) for which it may or may not hold.
        if i % 2 == 0 && ok {
            let n = G::order();
            let k = if rng.chance(1, 3) {
                // exact powers of two over / under small odd integers: reconstructions with a
                // coordinate of magnitude exactly 2^127 / 2^128 (sign and truncation boundaries)
                let hw = (n.bits() as usize + 1) / 2;
                let j = *rng.pick(&[63usize, 64, 126, 127, 128, 129, hw - 1, hw, hw + 1]);
                let t = (BigUint::from(1u32) << j) % &n;
                let m = BigUint::from(*rng.pick(&[1u32, 3, 5, 7, 9, 255, 65537]));
                let inv = |x: &BigUint| x.modpow(&(&n - 2u32), &n);
                let kk = if rng.chance(1, 2) { (&t * inv(&m)) % &n } else { (&m * inv(&t)) % &n };
                to_le(&(if rng.chance(1, 2) { kk } else { (&n - kk) % &n }), G::SC_LEN)
            } else if rng.chance(1, 2) {
                let hw = (n.bits() as usize + 1) / 2;
                let cls = [1usize, 63, 64, 65, 126, 127, 128, 129, hw - 1, hw, hw + 1];
                let mk = |rng: &mut Rng, bits: usize| -> BigUint {
                    let x = BigUint::from_bytes_le(&rng.bytes(bits / 8 + 1)) % (BigUint::from(1u32) << bits);
                    x | (BigUint::from(1u32) << (bits - 1))
                };
                let (b0, b1) = (*rng.pick(&cls), *rng.pick(&cls));
                let c0 = mk(rng, b0) % &n;
                let c1 = mk(rng, b1) % &n;
                let kk = (&c0 * c1.modpow(&(&n - 2u32), &n)) % &n;
                to_le(&(if rng.chance(1, 2) { kk } else { (&n - kk) % &n }), G::SC_LEN)
            } else { rng.pick(&scalars).clone() };
            let s = rng.pick(&scalars).clone();
            // R = s*G - k*Q
            ok = m.mulgen(8, &s, 0) && m.mul(9, a, &k, 0) && m.bin("sub", 10, 8, 9, 0);
            if ok {
                m.verify_helper(a, 10, &s, &k);
                if m.bin("add", 11, 10, 4, 0) { m.verify_helper(a, 11, &s, &k); }   // R + special point
                if m.bin("add", 11, 10, 1, 0) { m.verify_helper(a, 11, &s, &k); }   // R + G: must fail
                m.verify_helper(a, 0, &s, &k);
            }
        }
    }
}

/// candidate encodings: valid ones, boundary coordinates, non-canonical, all lengths, bit flips
fn run_codec<G: GroupApi>(tr: &mut Trace, rng: &mut Rng, plan: &Plan) {
    let n = G::enc_len();
    let mut cands: Vec<Vec<u8>> = G::special_encodings();
    // valid encodings of random and small multiples, and their one-bit flips
    let mut valid: Vec<Vec<u8>> = Vec::new();
    for i in 0..12u64 {
        let p = if i < 6 { let mut k = vec![0u8; G::SC_LEN]; k[0] = i as u8; G::mulgen(&k, 0) } else { G::mulgen(&rng.bytes(G::SC_LEN), 0) };
        valid.push(p.encode());
        if let Some(c) = p.encode_c() { valid.push(c); }
    }
    for v in valid.iter() {
        cands.push(v.clone());
        for _ in 0..6 {
            let mut f = v.clone();
            let bit = rng.below(8 * f.len());
            f[bit / 8] ^= 1 << (bit % 8);
            cands.push(f);
        }
        // flips of the top bits / format byte
        for bit in [0usize, 1, 2, 7] {
            let mut f = v.clone(); let l = f.len(); f[l - 1] ^= 1 << bit; cands.push(f);
            let mut f = v.clone(); f[0] ^= 1 << bit; cands.push(f);
        }
        let mut f = v.clone(); f.push(0); cands.push(f);
        let mut f = v.clone(); f.pop(); cands.push(f);
    }
    for len in 0..=(n + 2) {
        cands.push(vec![0u8; len]);
        cands.push(vec![0xFFu8; len]);
        if len > 0 { let mut t = vec![0u8; len]; t[0] = 1; cands.push(t); let mut t = vec![0u8; len]; t[len - 1] = 0x80; cands.push(t); }
    }
    // coordinate boundaries: small y/x, p-1-k, p+k (non-canonical), with each sign/format byte
    let shapes: Vec<Vec<u8>> = coordinate_boundaries::<G>();
    cands.extend(shapes);
    for _ in 0..plan.codec_random {
        let mut b = rng.bytes(n);
        if n == 65 { b[0] = 4; if rng.chance(1, 2) { b.truncate(33); b[0] = 2 + (rng.below(2) as u8); } }
        if n == 57 && rng.chance(3, 4) { b[56] &= 0x80; }
        cands.push(b);
    }
    let mut m = Mach::<G>::new(tr);
    for c in cands.iter() {
        if !m.decode(0, c) { m = Mach::<G>::new(tr); continue; }
    }
    // representative independence: D = P - decode(encode(P)) is a representative of the
    // neutral that decode never produces; P + D another representative of P
    for i in 0..(plan.codec_random / 3).max(12) {
        let ok = if G::map_len() > 0 && i % 2 == 1 { m.map(1, &rng.bytes(G::map_len())) }
                 else { m.mulgen(1, &rng.bytes(G::SC_LEN), i as u32) };
        if !ok { m = Mach::<G>::new(tr); continue; }
        let enc = m.regs[1].encode();
        let ok = m.cst(0, "NEUTRAL") && m.decode(2, &enc) && m.bin("sub", 3, 1, 2, i as u32)
            && m.bin("sub", 4, 2, 1, i as u32) && m.bin("add", 5, 1, 3, 0) && m.un("neg", 6, 3, 0)
            && m.un("double", 7, 5, 0) && m.un("double", 8, 2, 0);
        if !ok { m = Mach::<G>::new(tr); continue; }
        m.isneutral(3); m.isneutral(4); m.isneutral(6); m.equals(3, 0); m.equals(0, 4); m.encode(3); m.encode(4);
        m.equals(5, 1); m.equals(5, 2); m.equals(2, 5); m.encode(5); m.isneutral(5); m.equals(7, 8); m.encode(7);
    }
    // byte-string-to-group maps: boundary and random inputs
    if G::map_len() > 0 {
        let ml = G::map_len();
        let mut ins: Vec<Vec<u8>> = vec![vec![0u8; ml], vec![0xFFu8; ml]];
        let mut t = vec![0u8; ml]; t[0] = 1; ins.push(t);
        let mut t = vec![0u8; ml]; t[ml / 2] = 1; ins.push(t);
        let mut t = vec![0xFFu8; ml]; t[ml / 2 - 1] = 0x7F; t[ml - 1] = 0x7F; ins.push(t);
        for _ in 0..(plan.codec_random / 2).max(10) {
            let mut b = rng.bytes(ml);
            if rng.chance(1, 3) { let h = ml / 2; let (x, y) = b.split_at_mut(h); y.copy_from_slice(x); }
            ins.push(b);
        }
        for b in ins.iter() {
            if !m.map(1, b) { m = Mach::<G>::new(tr); continue; }
            m.encode(1);
        }
    }
    // round trips: encode(decode(e)) = e is implied by the `out` of accepted decodes;
    // decode(encode(P)) = P for computed points:
    for i in 0..(plan.codec_random / 4).max(8) {
        let ok = m.mulgen(1, &rng.bytes(G::SC_LEN), i as u32);
        if !ok { m = Mach::<G>::new(tr); continue; }
        let enc = m.regs[1].encode();
        if !m.decode(2, &enc) { m = Mach::<G>::new(tr); continue; }
        m.equals(1, 2);
        if let Some(c) = m.regs[1].encode_c() { if m.decode(3, &c) { m.equals(1, 3); } }
        m.encode(1);
    }
}

fn coordinate_boundaries<G: GroupApi>() -> Vec<Vec<u8>> {
    let mut out = Vec::new();
    let n = G::enc_len();
    let one = BigUint::from(1u32);
    let (p, clen, be): (BigUint, usize, bool) = match G::NAME {
        "ed25519" => ((&one << 255) - 19u32, 32, false),
        "ed448" => ((&one << 448) - (&one << 224) - 1u32, 56, false),
        "p256" => (hexn("ffffffff00000001000000000000000000000000ffffffffffffffffffffffff"), 32, true),
        _ => (hexn("fffffffffffffffffffffffffffffffffffffffffffffffffffffffefffffc2f"), 32, true),
    };
    let mut coords: Vec<BigUint> = Vec::new();
    for k in 0..24u32 { coords.push(BigUint::from(k)); coords.push(&p - 1u32 - k); coords.push(&p + k); }
    coords.push((&one << (8 * clen)) - 1u32);
    for c in coords {
        if c.bits() as usize > 8 * clen { continue; }
        let mut b = to_le(&c, clen);
        b.truncate(clen);
        if be { b.reverse(); }
        if n == 65 {
            for f in [2u8, 3] { let mut e = vec![f]; e.extend_from_slice(&b); out.push(e); }
        } else if n == 57 {
            for s in [0u8, 0x80] { let mut e = b.clone(); e.push(s); out.push(e); }
        } else {
            // ed25519: sign bit in the top bit of the last byte (only meaningful when the coordinate leaves it clear)
            out.push(b.clone());
            let mut e = b.clone(); e[31] ^= 0x80; out.push(e);
        }
    }
    out
}

/// Structure tests and coordinate maps: has_low_order / is_in_subgroup / to_montgomery_u on
/// torsion, mixed-order and prime-order points (Edwards curves); to_affine / to_projective /
/// from_affine / from_projective on results of the group law, rescaled and off-curve triples
/// (Weierstrass curves).
fn run_coords<G: GroupApi>(tr: &mut Trace, rng: &mut Rng, plan: &Plan) {
    let sp = G::special_encodings();
    let mut m = Mach::<G>::new(tr);
    let mut ok = m.cst(0, "NEUTRAL") && m.cst(1, "BASE") && m.mulgen(2, &rng.bytes(G::SC_LEN), 0);
    let to32 = |x: &BigUint| { let mut b = x.to_bytes_le(); b.resize(32, 0); b };
    let mut k = 0usize;
    let mut cands: Vec<Option<Vec<u8>>> = sp.iter().map(|e| Some(e.clone())).collect();
    for _ in 0..plan.scripts.max(2) { cands.push(None); }
    for c in cands.iter() {
        if !ok { m = Mach::<G>::new(tr); ok = m.cst(0, "NEUTRAL") && m.cst(1, "BASE") && m.mulgen(2, &rng.bytes(G::SC_LEN), 0); if !ok { return; } }
        ok = match c { Some(e) => m.decode(3, e), None => m.mulgen(3, &rng.bytes(G::SC_LEN), 1) };
        // the point itself, its sum with a prime-order point (mixed order when it is a torsion point),
        // its double, its opposite, P - P
        ok = ok && m.bin("add", 4, 3, 2, 0) && m.un("double", 5, 3, 0) && m.un("neg", 6, 4, 0) && m.bin("sub", 7, 4, 4, 1)
            && m.mul_small(8, 4, 8, 0) && m.bin("add", 9, 3, 3, 2);
        if !ok { continue; }
        for r in [0usize, 1, 2, 3, 4, 5, 6, 7, 8, 9] {
            m.structure(r);
            if let Some((px, py, pz)) = m.coords(r) {
                let q = G::field_modulus().unwrap();
                let (bx, by, bz) = (BigUint::from_bytes_le(&px), BigUint::from_bytes_le(&py), BigUint::from_bytes_le(&pz));
                let lams = [BigUint::from(1u32), BigUint::from(2u32), &q - 1u32, BigUint::from_bytes_le(&rng.bytes(40)) % &q];
                let lam = &lams[k % 4]; k += 1;
                let (sx, sy, sz) = ((&bx * lam) % &q, (&by * lam) % &q, (&bz * lam) % &q);
                ok = m.from_projective(10, &to32(&sx), &to32(&sy), &to32(&sz));
                if ok { m.equals(10, r); }
                // non-canonical input bytes (x + q) are reduced
                ok = ok && m.from_projective(10, &to32(&(&sx + &q)), &to32(&sy), &to32(&sz));
                // one coordinate off
                ok = ok && m.from_projective(11, &to32(&((&sx + 1u32) % &q)), &to32(&sy), &to32(&sz));
                ok = ok && m.from_projective(11, &to32(&sx), &to32(&((&sy + 1u32) % &q)), &to32(&sz));
                // any (X : Y : 0) is the point at infinity
                ok = ok && m.from_projective(11, &to32(&sx), &to32(&sy), &to32(&BigUint::from(0u32)));
                if ok { ok = m.bin("add", 10, 11, 4, 0) && m.bin("add", 10, 4, 11, 1) && m.bin("sub", 10, 4, 11, 2) && m.un("double", 10, 11, 0); m.isneutral(11); m.equals(11, 0); }
                ok = ok && m.from_projective(11, &to32(&BigUint::from(0u32)), &to32(&sy), &to32(&BigUint::from(0u32)));
                if ok { ok = m.bin("add", 10, 11, 4, 0) && m.bin("sub", 10, 11, 4, 1); m.isneutral(11); }
                ok = ok && m.from_projective(11, &to32(&BigUint::from(0u32)), &to32(&BigUint::from(0u32)), &to32(&BigUint::from(0u32)));
                if ok {
                    ok = m.bin("add", 10, 11, 4, 0) && m.bin("add", 10, 4, 11, 1) && m.bin("sub", 10, 4, 11, 2) && m.bin("sub", 10, 11, 4, 3)
                        && m.un("double", 10, 11, 0) && m.un("neg", 10, 11, 0) && m.mul_small(10, 11, 5, 0) && m.bin("add", 10, 11, 11, 0);
                    m.isneutral(11); m.equals(11, 0); m.equals(11, 4); m.equals(4, 11); m.encode(11);
                }
                if bz != BigUint::from(0u32) {
                    let iz = bz.modpow(&(&q - 2u32), &q);
                    let (ax, ay) = ((&bx * &iz) % &q, (&by * &iz) % &q);
                    ok = ok && m.from_affine(10, &to32(&ax), &to32(&ay));
                    if ok { m.equals(10, r); }
                    ok = ok && m.from_affine(11, &to32(&ax), &to32(&((&q - &ay) % &q)))
                        && m.from_affine(11, &to32(&ax), &to32(&((&ay + 1u32) % &q)))
                        && m.from_affine(11, &to32(&((&ax + 1u32) % &q)), &to32(&ay))
                        && m.from_affine(11, &to32(&(&ax + &q)), &to32(&ay));
                }
                ok = ok && m.from_affine(11, &to32(&BigUint::from(0u32)), &to32(&BigUint::from(0u32)))
                    && m.from_affine(11, &to32(&BigUint::from(1u32)), &to32(&BigUint::from(0u32)));
                if !ok { break; }
            }
        }
    }
}

/// GLS254 endomorphism: zeta on special / generic points (both signs), split_mu / split_mu_odd on
/// the scalar classes and on the lattice-derived boundary scalars.
fn run_endo<G: GroupApi>(tr: &mut Trace, rng: &mut Rng, plan: &Plan) {
    if G::split_mu(&[0u8; 32], false).is_none() { return; }
    let mut m = Mach::<G>::new(tr);
    let sp = G::special_encodings();
    let mut ok = m.cst(0, "NEUTRAL") && m.cst(1, "BASE") && m.mulgen(2, &rng.bytes(G::SC_LEN), 0);
    for e in sp.iter() { ok = ok && m.decode(3, e) && m.zeta(4, 3, 0) && m.zeta(5, 3, 0xFFFFFFFF) && m.bin("add", 6, 3, 2, 0) && m.zeta(7, 6, 0); }
    for r in [0usize, 1, 2] { ok = ok && m.zeta(4, r, 0) && m.zeta(5, r, 0xFFFFFFFF) && m.zeta(6, 4, 0) && m.bin("add", 7, 6, r, 0); if ok { m.isneutral(7); } }
    for _ in 0..plan.scripts { ok = ok && m.mulgen(3, &rng.bytes(G::SC_LEN), 1) && m.zeta(4, 3, if rng.chance(1, 2) { 0 } else { 0xFFFFFFFF }); }
    for k in scalar_classes::<G>(rng, plan.scalars) {
        m.split_mu(&k, false);
        m.split_mu(&k, true);
    }
}

/// x-only sequences (P-256): runs through the point at infinity, through the points with x = 0,
/// with Q = infinity, Q of x = 0, P0 or P1 infinity, every n in 0..=plan.len.
fn run_xseq<G: GroupApi>(tr: &mut Trace, rng: &mut Rng, plan: &Plan) {
    let sp = G::special_encodings();
    let nmax = plan.len.max(4);
    let mut m = Mach::<G>::new(tr);
    if !(m.cst(0, "NEUTRAL") && m.cst(1, "BASE")) { return; }
    if G::xseq(G::neutral(), G::neutral(), 0).is_none() { return; }
    // registers: 2 = Q, 3 = P0, 4 = P1 = P0 + Q, 5 = special point with x = 0 (when there is one)
    let have_x0 = sp.len() > 1 && m.decode(5, &sp[1]);
    let mut qs: Vec<Vec<u8>> = vec![vec![1u8], vec![2u8], vec![3u8]];
    for _ in 0..plan.scripts.max(1) { qs.push(rng.bytes(G::SC_LEN)); }
    for (qi, qk) in qs.iter().enumerate() {
        if !m.mulgen(2, qk, 0) { return; }
        for j in 0..=(nmax + 2) {
            // P0 = -j*Q: the sequence reaches infinity at index j
            if !(m.mul_small(6, 2, j as u64, 0) && m.un("neg", 3, 6, 0) && m.bin("add", 4, 3, 2, 0)) { return; }
            for n in [0usize, 1, 2, j.saturating_sub(1), j, j + 1, nmax] { if n <= nmax + 1 { m.xseq(3, 4, n); } }
            if have_x0 && qi < 3 {
                // P0 = X0 - j*Q: the sequence reaches a point with x = 0 at index j
                if !(m.bin("add", 7, 5, 3, 0) && m.bin("add", 8, 7, 2, 0)) { return; }
                for n in [0usize, 1, j, j + 1, j + 2, nmax] { if n <= nmax + 2 { m.xseq(7, 8, n); } }
            }
        }
        // Q = infinity; P0 / P1 infinity
        m.xseq(2, 2, 3); m.xseq(0, 0, 2); m.xseq(0, 2, 4); m.xseq(2, 0, 4);
        if have_x0 {
            // Q has x = 0; P0 has x = 0 and Q = -2*P0, ...
            m.xseq(0, 5, 4); m.xseq(5, 0, 4); m.xseq(5, 5, 2);
            if m.bin("add", 9, 5, 5, 0) && m.un("neg", 10, 5, 0) { m.xseq(5, 9, 4); m.xseq(10, 5, 4); m.xseq(5, 10, 4); }
            if m.bin("add", 9, 2, 5, 0) { m.xseq(2, 9, 4); m.xseq(9, 2, 4); }
        }
    }
    // lengths around the internal batch size (the implementation works in batches of 198/200 values)
    if m.mulgen(2, &rng.bytes(G::SC_LEN), 0) {
        for j in [0u64, 1, 197, 198, 199, 200, 201, 399, 400] {
            if !(m.mul_small(6, 2, j, 0) && m.un("neg", 3, 6, 0) && m.bin("add", 4, 3, 2, 0)) { return; }
            for n in [197usize, 198, 199, 200, 201, 202, 396, 397, 398, 399, 400, 401] {
                if j == 0 || j == 1 || (n as i64 - j as i64).abs() <= 2 { m.xseq(3, 4, n); }
            }
        }
        if m.mulgen(3, &rng.bytes(G::SC_LEN), 0) && m.bin("add", 4, 3, 2, 0) {
            for n in [198usize, 199, 200, 201, 396, 397, 398, 399, 400, 401, 402, 599, 600] { m.xseq(3, 4, n); }
        }
    }
    // random pairs
    for _ in 0..(plan.scripts * 4) {
        if !(m.mulgen(3, &rng.bytes(G::SC_LEN), 0) && m.mulgen(4, &rng.bytes(G::SC_LEN), 1)) { return; }
        m.xseq(3, 4, rng.below(nmax + 1));
    }
}

pub fn run_type<G: GroupApi>(tr: &mut Trace, rng: &mut Rng, what: &str, plan: &Plan) {
    for w in what.split('+') {
        match w {
            "law" => run_law::<G>(tr, rng, plan),
            "smul" => run_smul::<G>(tr, rng, plan),
            "mamv" => run_mamv::<G>(tr, rng, plan),
            "tables" => run_tables::<G>(tr, rng, plan),
            "codec" => run_codec::<G>(tr, rng, plan),
            "coords" => run_coords::<G>(tr, rng, plan),
            "xseq" => run_xseq::<G>(tr, rng, plan),
            "endo" => run_endo::<G>(tr, rng, plan),
            "vhtop" => run_vh_top::<G>(tr, rng, plan),
            _ => panic!("unknown group sub-domain {}", w),
        }
    }
}

pub fn run(tr: &mut Trace, rng: &mut Rng, grp: &str, what: &str, plan: &Plan) {
    match grp {
        "ed25519" => run_type::<crrl::ed25519::Point>(tr, rng, what, plan),
        "ed448" => run_type::<crrl::ed448::Point>(tr, rng, what, plan),
        "p256" => run_type::<crrl::p256::Point>(tr, rng, what, plan),
        "secp256k1" => run_type::<crrl::secp256k1::Point>(tr, rng, what, plan),
        "ristretto255" => run_type::<crrl::ristretto255::Point>(tr, rng, what, plan),
        "decaf448" => run_type::<crrl::decaf448::Point>(tr, rng, what, plan),
        "jq255e" => run_type::<crrl::jq255e::Point>(tr, rng, what, plan),
        "jq255s" => run_type::<crrl::jq255s::Point>(tr, rng, what, plan),
        "gls254" => run_type::<crrl::gls254::Point>(tr, rng, what, plan),
        _ => panic!("unknown group {}", grp),
    }
}
