// Signature / key-exchange domain (C07, C08, C14): self-contained events.
// The harness builds adversarial inputs with crrl's own public point/scalar
// API (torsion components, non-canonical encodings, out-of-range S); whether
// each must verify is decided by TLC from the specification, never here.

use crate::out::{guarded, Ev, Trace};
use crate::rng::Rng;
use num_bigint::BigUint;

fn lens_msg(rng: &mut Rng) -> usize {
    *rng.pick(&[0usize, 1, 2, 31, 32, 33, 63, 64, 65, 111, 112, 127, 128, 129, 200])
}

// ------------------------------------------------------------------ X25519 / X448

pub fn run_xdh(tr: &mut Trace, rng: &mut Rng, n: usize) {
    tr.emit(Ev::new("init").s("dom", "xdh"));
    let one = BigUint::from(1u32);
    let p25519 = (&one << 255) - 19u32;
    let p448 = (&one << 448) - (&one << 224) - 1u32;
    // u-coordinates: 0, 1, p-1, p, p+1..p+18 (non-canonical), 2^255-1, top bit set, the
    // small-order values of RFC 7748 / the usual blacklist, random
    let mut us: Vec<Vec<u8>> = Vec::new();
    let le32 = |x: &BigUint| { let mut b = x.to_bytes_le(); b.resize(32, 0); b };
    for k in 0..20u32 { us.push(le32(&BigUint::from(k))); us.push(le32(&(&p25519 - 1u32 - k))); us.push(le32(&(&p25519 + k))); }
    us.push(vec![0xFFu8; 32]);
    for h in ["e0eb7a7c3b41b8ae1656e3faf19fc46ada098deb9c32b1fd866205165f49b800",
              "5f9c95bca3508c24b1d0b1559c83ef5b04445cc4581c8e86d8224eddd09f1157",
              "ecffffffffffffffffffffffffffffffffffffffffffffffffffffffffffff7f",
              "edffffffffffffffffffffffffffffffffffffffffffffffffffffffffffff7f",
              "eeffffffffffffffffffffffffffffffffffffffffffffffffffffffffffff7f"] {
        let b: Vec<u8> = (0..32).map(|i| u8::from_str_radix(&h[2 * i..2 * i + 2], 16).unwrap()).collect();
        let mut t = b.clone(); t[31] |= 0x80; us.push(t);
        us.push(b);
    }
    // the base point with one other byte set (a special case for the generator must compare the whole string)
    for i in 1..32 { let mut b = vec![0u8; 32]; b[0] = 9; b[i] = if i % 3 == 0 { 0x80 } else { 1 }; us.push(b); }
    let ks: Vec<Vec<u8>> = vec![vec![0u8; 32], vec![0xFFu8; 32], { let mut k = vec![0u8; 32]; k[0] = 7; k[31] = 0x80; k }];
    let mut cases: Vec<(Vec<u8>, Vec<u8>)> = Vec::new();
    for u in us.iter() { cases.push((u.clone(), rng.bytes(32))); }
    for k in ks.iter() { cases.push((rng.bytes(32), k.clone())); cases.push((us[rng.below(us.len())].clone(), k.clone())); }
    for _ in 0..n { let mut u = rng.bytes(32); if rng.chance(1, 2) { u[31] &= 0x7F; } cases.push((u, rng.bytes(32))); }
    for (u, k) in cases {
        let (ua, ka): ([u8; 32], [u8; 32]) = (u.clone().try_into().unwrap(), k.clone().try_into().unwrap());
        let e = Ev::new("x25519").b("k", &k).b("u", &u);
        match guarded(move || crrl::x25519::x25519(&ua, &ka)) { Ok(o) => tr.emit(e.b("out", &o)), Err(m) => tr.emit(e.s("panic", &m)) }
    }
    // base-point path: the clamped scalar is reduced modulo the subgroup order L and fed to the Edwards generator
    // multiplication; clamped values j*L - t reduce to L - t, the top of the scalar range (top recoding digit)
    let l25519 = (&one << 252) + BigUint::parse_bytes(b"27742317777372353535851937790883648493", 10).unwrap();
    let mut kb: Vec<Vec<u8>> = Vec::new();
    for j in 4u32..8 { for t in 0u32..24 {
        let sv: BigUint = &l25519 * j - t;
        if (&sv % 8u32) == BigUint::from(0u32) && sv.bits() == 255 {
            kb.push(le32(&sv));
            let mut g = le32(&sv); g[0] |= 7; g[31] |= 0x80; kb.push(g);      // the bits that clamping clears / ignores
        }
        let sv: BigUint = &l25519 * j + t;
        if t < 9 && (&sv % 8u32) == BigUint::from(0u32) && sv.bits() == 255 { kb.push(le32(&sv)); }
    } }
    for i in 0..(n / 2 + 6 + kb.len()) {
        let k = if i < ks.len() { ks[i].clone() } else if i < ks.len() + kb.len() { kb[i - ks.len()].clone() } else { rng.bytes(32) };
        let ka: [u8; 32] = k.clone().try_into().unwrap();
        let e = Ev::new("x25519_base").b("k", &k);
        match guarded(move || crrl::x25519::x25519_base(&ka)) { Ok(o) => tr.emit(e.b("out", &o)), Err(m) => tr.emit(e.s("panic", &m)) }
    }
    // X448
    let le56 = |x: &BigUint| { let mut b = x.to_bytes_le(); b.resize(56, 0); b };
    let mut us: Vec<Vec<u8>> = Vec::new();
    for k in 0..8u32 { us.push(le56(&BigUint::from(k))); us.push(le56(&(&p448 - 1u32 - k))); us.push(le56(&(&p448 + k))); }
    us.push(vec![0xFFu8; 56]);
    for i in 1..56 { let mut b = vec![0u8; 56]; b[0] = 5; b[i] = if i % 3 == 0 { 0x80 } else { 1 }; us.push(b); }
    { let mut b = vec![0u8; 56]; b[0] = 5; b[55] = 0xFF; us.push(b); }
    let ks: Vec<Vec<u8>> = vec![vec![0u8; 56], vec![0xFFu8; 56]];
    let mut cases: Vec<(Vec<u8>, Vec<u8>)> = Vec::new();
    for u in us.iter() { cases.push((u.clone(), rng.bytes(56))); }
    for k in ks.iter() { cases.push((rng.bytes(56), k.clone())); }
    for _ in 0..(n / 3) { cases.push((rng.bytes(56), rng.bytes(56))); }
    for (u, k) in cases {
        let (ua, ka): ([u8; 56], [u8; 56]) = (u.clone().try_into().unwrap(), k.clone().try_into().unwrap());
        let e = Ev::new("x448").b("k", &k).b("u", &u);
        match guarded(move || crrl::x448::x448(&ua, &ka)) { Ok(o) => tr.emit(e.b("out", &o)), Err(m) => tr.emit(e.s("panic", &m)) }
    }
    let l448 = (&one << 446) - BigUint::parse_bytes(b"13818066809895115352007386748515426880336692474882178609894547503885", 10).unwrap();
    let mut kb: Vec<Vec<u8>> = Vec::new();
    for j in 2u32..5 { for t in 0u32..12 {
        let sv: BigUint = &l448 * j - t;
        if (&sv % 4u32) == BigUint::from(0u32) && sv.bits() == 448 { kb.push(le56(&sv)); let mut g = le56(&sv); g[0] |= 3; kb.push(g); }
        let sv: BigUint = &l448 * j + t;
        if t < 5 && (&sv % 4u32) == BigUint::from(0u32) && sv.bits() == 448 { kb.push(le56(&sv)); }
    } }
    for i in 0..(n / 6 + 4 + kb.len()) {
        let k = if i < ks.len() { ks[i].clone() } else if i < ks.len() + kb.len() { kb[i - ks.len()].clone() } else { rng.bytes(56) };
        let ka: [u8; 56] = k.clone().try_into().unwrap();
        let e = Ev::new("x448_base").b("k", &k);
        match guarded(move || crrl::x448::x448_base(&ka)) { Ok(o) => tr.emit(e.b("out", &o)), Err(m) => tr.emit(e.s("panic", &m)) }
    }
}

// ------------------------------------------------------------------ EdDSA

/// (negative?, magnitude little-endian) of the two coefficients of split_vartime (input selection only)
pub trait SplitShape { fn shape(&self) -> Vec<(bool, Vec<u8>)>; }
impl SplitShape for crrl::ed25519::Scalar {
    fn shape(&self) -> Vec<(bool, Vec<u8>)> {
        let (c0, c1) = self.split_vartime();
        vec![(c0 < 0, c0.unsigned_abs().to_le_bytes().to_vec()), (c1 < 0, c1.unsigned_abs().to_le_bytes().to_vec())]
    }
}
impl SplitShape for crrl::ed448::Scalar {
    fn shape(&self) -> Vec<(bool, Vec<u8>)> {
        let (c0, c1) = self.split_vartime();
        let conv = |c: &[u8]| -> (bool, Vec<u8>) {
            let neg = c[c.len() - 1] >= 0x80;
            if !neg { return (false, c.to_vec()); }
            let mut m: Vec<u8> = c.iter().map(|b| !b).collect();
            let mut cc = 1u16;
            for x in m.iter_mut() { let t = *x as u16 + cc; *x = t as u8; cc = t >> 8; }
            (true, m)
        };
        vec![conv(&c0), conv(&c1)]
    }
}
/// coefficient shapes that exercise sign handling and byte-wise carries of the callers of split_vartime
pub fn interesting_shape(sh: &[(bool, Vec<u8>)], lmax: usize) -> Option<usize> {
    for (_i, (_neg, m)) in sh.iter().enumerate() {
        // a coefficient of the largest possible bit length whose top five bits are at least 10001: the half-width
        // wNAF recoding carries into its last digit
        let v = num_bigint::BigUint::from_bytes_le(m);
        if v.bits() as usize == lmax && ((&v >> (lmax - 5)) & num_bigint::BigUint::from(31u32)) >= num_bigint::BigUint::from(17u32) { return Some(6); }
    }
    for (i, (neg, m)) in sh.iter().enumerate() {
        if *neg && m[0] == 0 { return Some(i); }                      // negation carries past the low byte
        if m[0] == 0 && m[1] == 0 { return Some(2 + i); }             // two zero low bytes
        if *neg && m[0] == 0xFF && m[1] == 0xFF { return Some(4 + i); }
    }
    None
}

macro_rules! eddsa_impl {
    ($modname:ident, $cname:expr, $m:ident, $seedlen:expr, $plen:expr, $hashk:expr, $torsion:expr) => {
        mod $modname {
            use super::*;
            use crrl::$m::{Point, PrivateKey, PublicKey, Scalar};

            fn verify(tr: &mut Trace, mode: &str, pk: &[u8], sig: &[u8], ctx: &[u8], msg: &[u8]) {
                // the raw (pure) variants take no context: it is the empty string
                let ctx: &[u8] = if mode == "raw" { &[] } else { ctx };
                let e = Ev::new("ed_verify").s("c", $cname).s("mode", mode).b("pk", pk).b("sig", sig).b("ctx", ctx).b("msg", msg);
                let (pkv, sigv, ctxv, msgv, md) = (pk.to_vec(), sig.to_vec(), ctx.to_vec(), msg.to_vec(), mode.to_string());
                match guarded(move || PublicKey::decode(&pkv).map(|k| match md.as_str() {
                    "raw" => k.verify_raw(&sigv, &msgv),
                    "ctx" => k.verify_ctx(&sigv, &ctxv, &msgv),
                    _ => k.verify_ph(&sigv, &ctxv, &msgv),
                })) {
                    Ok(None) => tr.emit(e.t("pkok", false)),
                    Ok(Some(r)) => tr.emit(e.t("pkok", true).t("res", r)),
                    Err(m) => tr.emit(e.s("panic", &m)),
                }
            }

            fn sign(tr: &mut Trace, mode: &str, seed: &[u8], ctx: &[u8], msg: &[u8]) -> Option<Vec<u8>> {
                let ctx: &[u8] = if mode == "raw" { &[] } else { ctx };
                let e = Ev::new("ed_sign").s("c", $cname).s("mode", mode).b("seed", seed).b("ctx", ctx).b("msg", msg);
                let (sv, ctxv, msgv, md) = (seed.to_vec(), ctx.to_vec(), msg.to_vec(), mode.to_string());
                match guarded(move || { let k = PrivateKey::from_seed(&sv); match md.as_str() {
                    "raw" => k.sign_raw(&msgv).to_vec(),
                    "ctx" => k.sign_ctx(&ctxv, &msgv).to_vec(),
                    _ => k.sign_ph(&ctxv, &msgv).to_vec(),
                } }) {
                    Ok(s) => { tr.emit(e.b("sig", &s)); Some(s) }
                    Err(m) => { tr.emit(e.s("panic", &m)); None }
                }
            }

            fn keygen(tr: &mut Trace, seed: &[u8]) -> Option<Vec<u8>> {
                let sv = seed.to_vec();
                let e = Ev::new("ed_keygen").s("c", $cname).b("seed", seed);
                match guarded(move || PrivateKey::from_seed(&sv).public_key.encode().to_vec()) {
                    Ok(pk) => { tr.emit(e.b("pk", &pk)); Some(pk) }
                    Err(m) => { tr.emit(e.s("panic", &m)); None }
                }
            }

            // challenge scalar k = H(dom || R || A || M) mod L, computed with crrl's own hash
            fn challenge(mode: &str, rb: &[u8], pk: &[u8], ctx: &[u8], msg: &[u8]) -> Scalar {
                let ctx: &[u8] = if mode == "raw" { &[] } else { ctx };
                let mut inp: Vec<u8> = Vec::new();
                if $plen == 57 {
                    inp.extend_from_slice(b"SigEd448"); inp.push(if mode == "ph" { 1 } else { 0 }); inp.push(ctx.len() as u8); inp.extend_from_slice(ctx);
                } else if mode != "raw" {
                    inp.extend_from_slice(b"SigEd25519 no Ed25519 collisions"); inp.push(if mode == "ph" { 1 } else { 0 }); inp.push(ctx.len() as u8); inp.extend_from_slice(ctx);
                }
                inp.extend_from_slice(rb); inp.extend_from_slice(pk); inp.extend_from_slice(msg);
                let h: Vec<u8> = $hashk(&inp);
                Scalar::decode_reduce(&h)
            }

            pub fn run(tr: &mut Trace, rng: &mut Rng, n_honest: usize, n_adv: usize) {
                tr.emit(Ev::new("init").s("dom", $cname));
                let modes = ["raw", "ctx", "ph"];
                // honest: keygen, sign, verify over message / context length boundaries; one-bit flips
                for i in 0..n_honest {
                    let seed = rng.bytes($seedlen);
                    let mode = modes[i % 3];
                    let ctx = if mode == "raw" && $plen == 32 { Vec::new() } else { { let l = *rng.pick(&[0usize, 1, 5, 254, 255]); rng.bytes(l) } };
                    let msg = if mode == "ph" { rng.bytes(64) } else { { let l = lens_msg(rng); rng.bytes(l) } };
                    let pk = match keygen(tr, &seed) { Some(p) => p, None => continue };
                    let sig = match sign(tr, mode, &seed, &ctx, &msg) { Some(s) => s, None => continue };
                    verify(tr, mode, &pk, &sig, &ctx, &msg);
                    let mut s2 = sig.clone(); let bit = rng.below(8 * s2.len()); s2[bit / 8] ^= 1 << (bit % 8);
                    verify(tr, mode, &pk, &s2, &ctx, &msg);
                    if i % 3 == 0 {
                        let mut m2 = msg.clone(); if m2.is_empty() { m2.push(0); } else { let b = rng.below(8 * m2.len()); m2[b / 8] ^= 1 << (b % 8); }
                        verify(tr, mode, &pk, &sig, &ctx, &m2);
                        let other = if mode == "raw" { "ctx" } else { "raw" };
                        verify(tr, other, &pk, &sig, &ctx, &msg);
                        let mut s3 = sig.clone(); s3.push(0); verify(tr, mode, &pk, &s3, &ctx, &msg);
                        s3.truncate(sig.len() - 1); verify(tr, mode, &pk, &s3, &ctx, &msg);
                    }
                }
                // honest signatures whose challenge k splits (k = c0/c1) into coefficients of a rare shape: a negative
                // coefficient with a zero low byte (its negation carries), zero low bytes; found by search over messages
                {
                    let seed = rng.bytes($seedlen);
                    let pk = PrivateKey::from_seed(&seed).public_key.encode().to_vec();
                    let mut seen = [0usize; 7];
                    let mut found = 0usize;
                    let budget = if n_honest > 20 { 60000u32 } else { 12000u32 };
                    let want = if n_honest > 20 { 28 } else { 9 };
                    let base = rng.u64() as u32;
                    for i in 0..budget {
                        let msg = base.wrapping_add(i).to_le_bytes().to_vec();
                        let sg = PrivateKey::from_seed(&seed).sign_raw(&msg).to_vec();
                        let k = challenge("raw", &sg[..$plen], &pk, &[], &msg);
                        let cls = match interesting_shape(&k.shape(), if $plen == 57 { 224 } else { 127 }) { Some(c) => c, None => continue };
                        if seen[cls] >= 2 + want / 6 { continue; }
                        seen[cls] += 1; found += 1;
                        if let Some(sig) = sign(tr, "raw", &seed, &[], &msg) {
                            verify(tr, "raw", &pk, &sig, &[], &msg);
                            let mut s2 = sig.clone(); s2[$plen] ^= 1; verify(tr, "raw", &pk, &s2, &[], &msg);
                        }
                        if found >= want { break; }
                    }
                }
                // adversarial: A = a*B + T1, R = r*B + T2 with T1, T2 small-order points (by their
                // well-known encodings), S = r + k*a mod L, so that the cofactored equation holds;
                // then S-classes and encoding classes
                let tors: Vec<Vec<u8>> = $torsion();
                let tpts: Vec<Point> = tors.iter().filter_map(|e| Point::decode(e)).collect();
                let l_bytes = { let mut b = (-Scalar::ONE).encode().to_vec(); // L - 1
                    let mut c = 1u16; for x in b.iter_mut() { let t = *x as u16 + c; *x = t as u8; c = t >> 8; } b };
                for i in 0..n_adv {
                    let mode = modes[(i / 4) % 3];
                    let ctx = if mode == "raw" && $plen == 32 { Vec::new() } else { { let l = rng.below(4); rng.bytes(l) } };
                    let msg = if mode == "ph" { rng.bytes(64) } else { { let l = rng.below(40); rng.bytes(l) } };
                    let a = Scalar::decode_reduce(&rng.bytes(64));
                    let r = Scalar::decode_reduce(&rng.bytes(64));
                    let (t1, t2) = (tpts[rng.below(tpts.len())], tpts[rng.below(tpts.len())]);
                    // A is sometimes a pure small-order point (a = 0), R likewise
                    let a = if i % 5 == 0 { Scalar::ZERO } else { a };
                    let r = if i % 7 == 0 { Scalar::ZERO } else { r };
                    let pa = Point::mulgen(&a) + t1;
                    let pr = Point::mulgen(&r) + t2;
                    let pk = pa.encode().to_vec();
                    let rb = pr.encode().to_vec();
                    let k = challenge(mode, &rb, &pk, &ctx, &msg);
                    let s = r + k * a;
                    let sb = { let mut b = s.encode().to_vec(); b.resize($plen, 0); b };
                    let mut sig = rb.clone(); sig.extend_from_slice(&sb);
                    verify(tr, mode, &pk, &sig, &ctx, &msg);
                    match i % 4 {
                        0 => { // S + L (same residue, non-canonical)
                            let mut b = sb.clone(); let mut c = 0u16;
                            for j in 0..b.len() { let t = b[j] as u16 + (if j < l_bytes.len() { l_bytes[j] } else { 0 }) as u16 + c; b[j] = t as u8; c = t >> 8; }
                            let mut sg = rb.clone(); sg.extend_from_slice(&b); verify(tr, mode, &pk, &sg, &ctx, &msg);
                        }
                        1 => { // S in {L-1, L, L+1} and 0 with this R, A
                            for d in [0u8, 1, 2] {
                                let mut b = (-Scalar::ONE).encode().to_vec(); b.resize($plen, 0);
                                let mut c = d as u16; for x in b.iter_mut() { let t = *x as u16 + c; *x = t as u8; c = t >> 8; }
                                let mut sg = rb.clone(); sg.extend_from_slice(&b); verify(tr, mode, &pk, &sg, &ctx, &msg);
                            }
                            let mut sg = rb.clone(); sg.extend_from_slice(&vec![0u8; $plen]); verify(tr, mode, &pk, &sg, &ctx, &msg);
                        }
                        2 => { // encoding classes of R and A: flip the sign bit (x = 0 points become invalid,
                               // others become another point), set unused bits
                            let mut sg = sig.clone(); sg[$plen - 1] ^= 0x80; verify(tr, mode, &pk, &sg, &ctx, &msg);
                            let mut p2 = pk.clone(); p2[$plen - 1] ^= 0x80; verify(tr, mode, &p2, &sig, &ctx, &msg);
                            if $plen == 57 { let mut sg = sig.clone(); sg[56] ^= 0x01; verify(tr, mode, &pk, &sg, &ctx, &msg);
                                             let mut sg = sig.clone(); sg[113] ^= 0x80; verify(tr, mode, &pk, &sg, &ctx, &msg); }
                        }
                        _ => { // small-order / non-canonical encodings used directly as R and as A with S = 0 and S = s
                            let enc = tors[rng.below(tors.len())].clone();
                            let mut sg = enc.clone(); sg.extend_from_slice(&vec![0u8; $plen]); verify(tr, mode, &pk, &sg, &ctx, &msg);
                            let mut sg = rb.clone(); sg.extend_from_slice(&vec![0u8; $plen]); verify(tr, mode, &enc, &sg, &ctx, &msg);
                            let enc2 = tors[rng.below(tors.len())].clone();
                            let mut sg = enc2.clone(); sg.extend_from_slice(&vec![0u8; $plen]); verify(tr, mode, &enc, &sg, &ctx, &msg);
                        }
                    }
                }
            }
        }
    };
}

fn h512(inp: &[u8]) -> Vec<u8> { crrl::sha2::Sha512::hash(inp).to_vec() }
fn hshake(inp: &[u8]) -> Vec<u8> {
    let mut sh = crrl::sha3::SHAKE256::new();
    sh.inject(inp);
    let mut o = vec![0u8; 114];
    sh.flip_extract(&mut o);
    o
}
fn hexb(s: &str) -> Vec<u8> { (0..s.len() / 2).map(|i| u8::from_str_radix(&s[2 * i..2 * i + 2], 16).unwrap()).collect() }

// small-order points and the non-canonical / invalid aliases of their encodings
fn torsion25519() -> Vec<Vec<u8>> {
    let mut v = Vec::new();
    for h in ["0100000000000000000000000000000000000000000000000000000000000000",
              "ecffffffffffffffffffffffffffffffffffffffffffffffffffffffffffff7f",
              "0000000000000000000000000000000000000000000000000000000000000000",
              "0000000000000000000000000000000000000000000000000000000000000080",
              "26e8958fc2b227b045c3f489f2ef98f0d5dfac05d3c63339b13802886d53fc05",
              "26e8958fc2b227b045c3f489f2ef98f0d5dfac05d3c63339b13802886d53fc85",
              "c7176a703d4dd84fba3c0b760d10670f2a2053fa2c39ccc64ec7fd7792ac037a",
              "c7176a703d4dd84fba3c0b760d10670f2a2053fa2c39ccc64ec7fd7792ac03fa",
              // aliases: x = 0 with the sign bit set (y = 1, y = -1), y + p for y = 0, 1
              "0100000000000000000000000000000000000000000000000000000000000080",
              "ecffffffffffffffffffffffffffffffffffffffffffffffffffffffffffffff",
              "edffffffffffffffffffffffffffffffffffffffffffffffffffffffffffff7f",
              "eeffffffffffffffffffffffffffffffffffffffffffffffffffffffffffff7f",
              "edffffffffffffffffffffffffffffffffffffffffffffffffffffffffffffff",
              "eeffffffffffffffffffffffffffffffffffffffffffffffffffffffffffffff"] {
        v.push(hexb(h));
    }
    v
}

fn torsion448() -> Vec<Vec<u8>> {
    let mut v = Vec::new();
    let mut one = vec![0u8; 57]; one[0] = 1; v.push(one.clone());
    let mut m1 = vec![0xFFu8; 57]; m1[0] = 0xFE; m1[28] = 0xFE; m1[56] = 0; v.push(m1.clone());
    v.push(vec![0u8; 57]);
    let mut x1 = vec![0u8; 57]; x1[56] = 0x80; v.push(x1);
    // aliases: x = 0 with sign bit, y = p, y = p + 1, stray bits in the last byte
    one[56] = 0x80; v.push(one.clone());
    m1[56] = 0x80; v.push(m1.clone());
    let mut yp = vec![0xFFu8; 57]; yp[28] = 0xFE; yp[56] = 0; v.push(yp.clone());
    yp[0] = 0; yp[28] = 0xFF; // not a simple +1; keep as an arbitrary large value
    v.push(yp);
    let mut st = vec![0u8; 57]; st[0] = 1; st[56] = 0x01; v.push(st);
    v
}

eddsa_impl!(ed25519_impl, "ed25519", ed25519, 32, 32, h512, torsion25519);
eddsa_impl!(ed448_impl, "ed448", ed448, 57, 57, hshake, torsion448);

pub fn run_eddsa(tr: &mut Trace, rng: &mut Rng, which: &str, honest: usize, adv: usize) {
    match which {
        "ed25519" => ed25519_impl::run(tr, rng, honest, adv),
        _ => ed448_impl::run(tr, rng, honest, adv),
    }
}

// ------------------------------------------------------------------ ECDSA

macro_rules! ecdsa_impl {
    ($modname:ident, $cname:expr, $m:ident, $nhex:expr) => {
        mod $modname {
            use super::*;
            use crrl::$m::{Point, PrivateKey, PublicKey, Scalar};

            fn order() -> BigUint { BigUint::parse_bytes($nhex.as_bytes(), 16).unwrap() }
            fn be32(x: &BigUint) -> Vec<u8> { let mut b = x.to_bytes_be(); while b.len() < 32 { b.insert(0, 0); } b }

            fn verify(tr: &mut Trace, pk: &[u8], sig: &[u8], hv: &[u8]) {
                let e = Ev::new("ecdsa_verify").s("c", $cname).b("pk", pk).b("sig", sig).b("hv", hv);
                let (pkv, sigv, hvv) = (pk.to_vec(), sig.to_vec(), hv.to_vec());
                match guarded(move || PublicKey::decode(&pkv).map(|k| k.verify_hash(&sigv, &hvv))) {
                    Ok(None) => tr.emit(e.t("pkok", false)),
                    Ok(Some(r)) => tr.emit(e.t("pkok", true).t("res", r)),
                    Err(m) => tr.emit(e.s("panic", &m)),
                }
            }
            fn keygen(tr: &mut Trace, sk: &[u8]) -> Option<Vec<u8>> {
                let skv = sk.to_vec();
                let e = Ev::new("ecdsa_keygen").s("c", $cname).b("sk", sk);
                match guarded(move || PrivateKey::decode(&skv).map(|k| k.to_public_key().encode_uncompressed().to_vec())) {
                    Ok(None) => { tr.emit(e.t("skok", false)); None }
                    Ok(Some(pk)) => { tr.emit(e.t("skok", true).b("pk", &pk)); Some(pk) }
                    Err(m) => { tr.emit(e.s("panic", &m)); None }
                }
            }
            fn sign(tr: &mut Trace, sk: &[u8], hv: &[u8], extra: &[u8]) -> Option<Vec<u8>> {
                let (skv, hvv, ex) = (sk.to_vec(), hv.to_vec(), extra.to_vec());
                let e = Ev::new("ecdsa_sign").s("c", $cname).b("sk", sk).b("hv", hv).b("extra", extra);
                match guarded(move || PrivateKey::decode(&skv).map(|k| k.sign_hash(&hvv, &ex).to_vec())) {
                    Ok(Some(s)) => { tr.emit(e.b("sig", &s)); Some(s) }
                    Ok(None) => None,
                    Err(m) => { tr.emit(e.s("panic", &m)); None }
                }
            }

            pub fn run(tr: &mut Trace, rng: &mut Rng, n_honest: usize, n_adv: usize) {
                tr.emit(Ev::new("init").s("dom", $cname));
                let n = order();
                let one = BigUint::from(1u32);
                // key decoding boundaries
                for sk in [vec![0u8; 32], be32(&one), be32(&(&n - 1u32)), be32(&n), be32(&(&n + 1u32)), vec![0xFFu8; 32],
                           vec![0u8; 31], vec![1u8; 33], Vec::new()] {
                    keygen(tr, &sk);
                }
                let hlens = [0usize, 1, 20, 31, 32, 33, 48, 64];
                let elens = [0usize, 0, 1, 32, 100];
                for i in 0..n_honest {
                    let sk = match i { 0 => be32(&one), 1 => be32(&(&n - 1u32)), _ => be32(&(BigUint::from_bytes_be(&rng.bytes(40)) % (&n - 1u32) + 1u32)) };
                    let hv = match i % 5 { 0 => vec![0u8; hlens[i % 8]], 1 => vec![0xFFu8; hlens[i % 8]], _ => rng.bytes(hlens[i % 8]) };
                    let extra = rng.bytes(elens[i % 5]);
                    let pk = match keygen(tr, &sk) { Some(p) => p, None => continue };
                    let sig = match sign(tr, &sk, &hv, &extra) { Some(s) => s, None => continue };
                    verify(tr, &pk, &sig, &hv);
                    // compressed public key, longer signature with zero / non-zero surplus, shorter, odd
                    let pkc = PublicKey::decode(&pk).unwrap().encode_compressed().to_vec();
                    verify(tr, &pkc, &sig, &hv);
                    let mut wide = vec![0u8; 2]; wide.extend_from_slice(&sig[..32]); wide.extend_from_slice(&[0, 0]); wide.extend_from_slice(&sig[32..]);
                    verify(tr, &pk, &wide, &hv);
                    wide[1] = 1; verify(tr, &pk, &wide, &hv);
                    let mut odd = sig.clone(); odd.push(0); verify(tr, &pk, &odd, &hv);
                    if sig[0] == 0 && sig[32] == 0 { let mut sh = sig[1..32].to_vec(); sh.extend_from_slice(&sig[33..]); verify(tr, &pk, &sh, &hv); }
                    let mut s2 = sig.clone(); let bit = rng.below(512); s2[bit / 8] ^= 1 << (bit % 8); verify(tr, &pk, &s2, &hv);
                    let mut h2 = hv.clone(); if !h2.is_empty() { h2[0] ^= 1; verify(tr, &pk, &sig, &h2); }
                    // bytes of the hash beyond the first 32 are ignored
                    if hv.len() > 32 { let mut h3 = hv.clone(); let l = h3.len(); h3[l - 1] ^= 0xFF; verify(tr, &pk, &sig, &h3); }
                }
                // range lattice for (r, s) under a fixed key, and signatures valid by construction:
                // choose k, s freely, x = (s*k - h)/r
                let sk = be32(&(BigUint::from_bytes_be(&rng.bytes(40)) % (&n - 1u32) + 1u32));
                if let Some(pk) = keygen(tr, &sk) {
                    let vals = [BigUint::from(0u32), one.clone(), &n - 1u32, n.clone(), &n + 1u32, (&one << 256) - 1u32];
                    let hv = rng.bytes(32);
                    for r in vals.iter() { for s in vals.iter() {
                        let mut sig = be32(r); sig.extend_from_slice(&be32(s)); verify(tr, &pk, &sig, &hv);
                    } }
                    for l in [0usize, 2, 62, 66, 128] { verify(tr, &pk, &rng.bytes(l), &hv); }
                }
                for _ in 0..n_adv {
                    let k = Scalar::decode_reduce(&rng.bytes(48));
                    let pr = Point::mulgen(&k);
                    let enc = pr.encode_uncompressed();
                    let r = Scalar::decode_reduce(&{ let mut x = enc[1..33].to_vec(); x.reverse(); x });
                    let s = match rng.below(6) { 0 => Scalar::ONE, 1 => -Scalar::ONE, 2 => Scalar::decode_reduce(&rng.bytes(20)), 3 => Scalar::decode_reduce(&rng.bytes(27)),
                                                 _ => Scalar::decode_reduce(&rng.bytes(48)) };
                    let hl = *rng.pick(&[20usize, 32, 40]);
                    let hv = rng.bytes(hl);
                    let h = Scalar::decode_reduce(&{ let mut x = hv[..hv.len().min(32)].to_vec(); x.reverse(); x });
                    if r.iszero() != 0 || s.iszero() != 0 { continue; }
                    let x = (s * k - h) / r;
                    if x.iszero() != 0 { continue; }
                    let pk = Point::mulgen(&x).encode_uncompressed().to_vec();
                    let mut sig = { let mut b = r.encode().to_vec(); b.reverse(); b };
                    sig.extend_from_slice(&{ let mut b = s.encode().to_vec(); b.reverse(); b });
                    verify(tr, &pk, &sig, &hv);
                    // the non-canonical alias s + n of a valid s (it fits 32 bytes when s is small): must be rejected
                    {
                        let sv = BigUint::from_bytes_le(&s.encode());
                        let alias = &sv + &n;
                        if alias.bits() <= 256 { let mut sg = sig[..32].to_vec(); sg.extend_from_slice(&be32(&alias)); verify(tr, &pk, &sg, &hv); }
                    }
                    // the point-at-infinity outcome: Q = -(h/r)*G makes [h/s]G + [r/s]Q the neutral
                    let q = -(Point::mulgen(&(h / r)));
                    if q.isneutral() == 0 { verify(tr, &q.encode_uncompressed().to_vec(), &sig, &hv); }
                }
                // signatures valid by construction whose multiplier u = r/s is a prescribed scalar: the lattice-derived
                // boundary scalars of the endomorphism split (secp256k1), the order's neighbourhood and small values
                // (both curves): choose u and k, then r = x(kG), s = r/u, x = (s*k - h)/r
                {
                    let mut us: Vec<Vec<u8>> = crate::group::endo_boundary_scalars::<Point>(rng, if n_adv > 40 { 120 } else { 30 });
                    for v in [1u32, 2, 3] { us.push(be32(&BigUint::from(v)).into_iter().rev().collect()); us.push(be32(&(&n - v)).into_iter().rev().collect()); }
                    // fraction-shaped multipliers u = c0/c1 (the verification splits u that way): halves with zero low limbs,
                    // at the top of the half-width range, either sign
                    {
                        let inv = |x: &BigUint| x.modpow(&(&n - 2u32), &n);
                        let r64 = |rng: &mut Rng| BigUint::from(rng.u64() | 1);
                        let c0s: Vec<BigUint> = vec![(&one << 127) - 1u32, r64(rng) << 64, (r64(rng) << 64) << 32, (&one << 126) + (&one << 122) + r64(rng),
                                                     (&one << 127) + (&one << 123) + r64(rng), &one << 96, (&one << 128) - (&one << 32)];
                        for (i, c0) in c0s.iter().enumerate() {
                            let c1 = match i % 3 { 0 => BigUint::from(3u32), 1 => r64(rng), _ => (r64(rng) << 64) | one.clone() };
                            let u = ((c0 % &n) * inv(&(&c1 % &n))) % &n;
                            for uu in [u.clone(), (&n - &u) % &n, inv(&u)] { us.push(be32(&uu).into_iter().rev().collect()); }
                        }
                    }
                    for ub in us.iter() {
                        let u = Scalar::decode_reduce(ub);
                        if u.iszero() != 0 { continue; }
                        let k = Scalar::decode_reduce(&rng.bytes(48));
                        let enc = Point::mulgen(&k).encode_uncompressed();
                        let r = Scalar::decode_reduce(&{ let mut x = enc[1..33].to_vec(); x.reverse(); x });
                        if r.iszero() != 0 { continue; }
                        let s = r / u;
                        let hv = rng.bytes(32);
                        let h = Scalar::decode_reduce(&{ let mut x = hv.clone(); x.reverse(); x });
                        let x = (s * k - h) / r;
                        if x.iszero() != 0 || s.iszero() != 0 { continue; }
                        let pk = Point::mulgen(&x).encode_uncompressed().to_vec();
                        let mut sig = { let mut b = r.encode().to_vec(); b.reverse(); b };
                        sig.extend_from_slice(&{ let mut b = s.encode().to_vec(); b.reverse(); b });
                        verify(tr, &pk, &sig, &hv);
                    }
                }
                // x(R) in [n, p-1]: R = (n + j, y) on the curve, r = j.  The verifier must reduce
                // x(R) modulo n before comparing with r.
                let mut found = 0;
                let mut j = 1u32;
                while found < 3 && j < 400 {
                    let x = &n + j;
                    let mut enc = vec![2u8 + (rng.below(2) as u8)]; enc.extend_from_slice(&be32(&x));
                    if let Some(pr) = Point::decode(&enc) {
                        found += 1;
                        let r = Scalar::from_u32(j);
                        let s = Scalar::decode_reduce(&rng.bytes(48));
                        let hv = rng.bytes(32);
                        let h = Scalar::decode_reduce(&{ let mut x = hv.clone(); x.reverse(); x });
                        if s.iszero() == 0 {
                            let q = (pr * s - Point::mulgen(&h)) * (Scalar::ONE / r);
                            let mut sig = { let mut b = r.encode().to_vec(); b.reverse(); b };
                            sig.extend_from_slice(&{ let mut b = s.encode().to_vec(); b.reverse(); b });
                            if q.isneutral() == 0 {
                                verify(tr, &q.encode_uncompressed().to_vec(), &sig, &hv);
                                let mut s2 = sig.clone(); s2[31] ^= 1; verify(tr, &q.encode_uncompressed().to_vec(), &s2, &hv);
                            }
                        }
                    }
                    j += 1;
                }
                // public keys: infinity encodings and malformed
                let hv = rng.bytes(32);
                let sig = rng.bytes(64);
                for pk in [vec![0u8], vec![0u8; 33], vec![0u8; 65], vec![4u8; 65], vec![2u8; 33]] { verify(tr, &pk, &sig, &hv); }
            }
        }
    };
}

ecdsa_impl!(p256_impl, "p256", p256, "ffffffff00000000ffffffffffffffffbce6faada7179e84f3b9cac2fc632551");
ecdsa_impl!(k1_impl, "secp256k1", secp256k1, "fffffffffffffffffffffffffffffffebaaedce6af48a03bbfd25e8cd0364141");

pub fn run_ecdsa(tr: &mut Trace, rng: &mut Rng, which: &str, honest: usize, adv: usize) {
    match which {
        "p256" => p256_impl::run(tr, rng, honest, adv),
        _ => k1_impl::run(tr, rng, honest, adv),
    }
}

// ------------------------------------------------------------------ jq255e / jq255s / gls254

macro_rules! jq_impl {
    ($modname:ident, $cname:expr, $m:ident) => {
        mod $modname {
            use super::*;
            use crrl::$m::{Point, PrivateKey, PublicKey, Scalar};

            fn keygen(tr: &mut Trace, sk: &[u8]) -> Option<Vec<u8>> {
                let skv = sk.to_vec();
                let e = Ev::new("jq_keygen").s("c", $cname).b("sk", sk);
                match guarded(move || PrivateKey::decode(&skv).map(|k| k.public_key.encode().to_vec())) {
                    Ok(None) => { tr.emit(e.t("skok", false)); None }
                    Ok(Some(pk)) => { tr.emit(e.t("skok", true).b("pk", &pk)); Some(pk) }
                    Err(m) => { tr.emit(e.s("panic", &m)); None }
                }
            }
            fn verify(tr: &mut Trace, pk: &[u8], sig: &[u8], hn: &str, data: &[u8]) {
                let e = Ev::new("jq_verify").s("c", $cname).b("pk", pk).b("sig", sig).b("hn", hn.as_bytes()).b("data", data);
                let (pkv, sv, hv, dv) = (pk.to_vec(), sig.to_vec(), hn.to_string(), data.to_vec());
                match guarded(move || PublicKey::decode(&pkv).map(|k| k.verify(&sv, &hv, &dv))) {
                    Ok(None) => tr.emit(e.t("pkok", false)),
                    Ok(Some(r)) => tr.emit(e.t("pkok", true).t("res", r)),
                    Err(m) => tr.emit(e.s("panic", &m)),
                }
            }
            fn ecdh(tr: &mut Trace, sk: &[u8], peer: &[u8]) -> Option<(Vec<u8>, u32)> {
                let (skv, pv) = (sk.to_vec(), peer.to_vec());
                let e = Ev::new("jq_ecdh").s("c", $cname).b("sk", sk).b("peer", peer);
                match guarded(move || PrivateKey::decode(&skv).map(|k| k.ECDH(&pv))) {
                    Ok(Some((key, st))) => { tr.emit(e.b("key", &key).st("st", st)); Some((key.to_vec(), st)) }
                    Ok(None) => None,
                    Err(m) => { tr.emit(e.s("panic", &m)); None }
                }
            }

            pub fn run(tr: &mut Trace, rng: &mut Rng, n_honest: usize, n_adv: usize) {
                tr.emit(Ev::new("init").s("dom", $cname));
                let n = BigUint::from_bytes_le(&(-Scalar::ONE).encode()) + 1u32;
                let le32 = |x: &BigUint| { let mut b = x.to_bytes_le(); if b == [0] { b.clear(); } b.resize(32.max(b.len()), 0); b };
                for sk in [vec![0u8; 32], le32(&BigUint::from(1u32)), le32(&(&n - 1u32)), le32(&n), le32(&(&n + 1u32)), vec![0xFFu8; 32], vec![1u8; 31], vec![1u8; 33]] {
                    keygen(tr, &sk);
                }
                let names = ["", "sha256", "blake2s", "sha512", "x"];
                let mut keys: Vec<(Vec<u8>, Vec<u8>)> = Vec::new();
                for i in 0..n_honest {
                    let sk = match i { 0 => le32(&BigUint::from(1u32)), 1 => le32(&(&n - 1u32)), _ => le32(&(BigUint::from_bytes_le(&rng.bytes(40)) % (&n - 1u32) + 1u32)) };
                    let pk = match keygen(tr, &sk) { Some(p) => p, None => continue };
                    keys.push((sk.clone(), pk.clone()));
                    let hn = names[i % names.len()];
                    let data = { let l = *rng.pick(&[0usize, 1, 31, 32, 33, 63, 64, 65, 100]); rng.bytes(l) };
                    let seed = { let l = *rng.pick(&[0usize, 0, 1, 32, 70]); rng.bytes(l) };
                    let k = PrivateKey::decode(&sk).unwrap();
                    let (sd, dv) = (seed.clone(), data.clone());
                    let e = Ev::new("jq_sign").s("c", $cname).b("sk", &sk).b("seed", &seed).b("hn", hn.as_bytes()).b("data", &data);
                    let sig = match guarded(move || if sd.is_empty() { k.sign(hn, &dv).to_vec() } else { k.sign_seeded(&sd, hn, &dv).to_vec() }) {
                        Ok(s) => { tr.emit(e.b("sig", &s)); s } Err(m) => { tr.emit(e.s("panic", &m)); continue; } };
                    verify(tr, &pk, &sig, hn, &data);
                    let k = PrivateKey::decode(&sk).unwrap();
                    let dv = data.clone();
                    let mut r2 = Rng::new(rng.u64());
                    let e = Ev::new("jq_sign_rand").s("c", $cname).b("sk", &sk).b("hn", hn.as_bytes()).b("data", &data);
                    match guarded(move || k.sign_randomized(&mut r2, hn, &dv).to_vec()) {
                        Ok(s) => { tr.emit(e.b("sig", &s)); verify(tr, &pk, &s, hn, &data); } Err(m) => tr.emit(e.s("panic", &m)) }
                    // alterations
                    let mut s2 = sig.clone(); let bit = rng.below(8 * 48); s2[bit / 8] ^= 1 << (bit % 8); verify(tr, &pk, &s2, hn, &data);
                    verify(tr, &pk, &sig, if hn.is_empty() { "sha256" } else { "" }, &data);
                    let mut d2 = data.clone(); d2.push(0); verify(tr, &pk, &sig, hn, &d2);
                    let mut s3 = sig.clone(); s3.push(0); verify(tr, &pk, &s3, hn, &data); s3.truncate(47); verify(tr, &pk, &s3, hn, &data);
                    verify(tr, &pk, &[], hn, &data);
                }
                // adversarial: chosen challenge bytes c (extreme multipliers) and s in {r-1, r, r+1}; a signature
                // valid by construction for a chosen c cannot be made (c is a hash output), so these must be judged
                // by the recomputed challenge; s + r (non-canonical) must be rejected even when s verifies
                for i in 0..n_adv {
                    let (sk, pk) = keys[rng.below(keys.len())].clone();
                    let k = PrivateKey::decode(&sk).unwrap();
                    let data = rng.bytes(8);
                    let sig = k.sign("", &data).to_vec();
                    let sv = BigUint::from_bytes_le(&sig[16..48]);
                    let mut cands: Vec<Vec<u8>> = Vec::new();
                    let snc = &sv + &n;
                    if snc.bits() <= 256 { let mut t = sig[..16].to_vec(); t.extend_from_slice(&le32(&snc)); cands.push(t); }
                    for c in [vec![0u8; 16], vec![0xFFu8; 16], { let mut c = vec![0u8; 16]; c[15] = 0x80; c }, { let mut c = vec![0xFFu8; 16]; c[8] = 0; c }] {
                        for s in [le32(&(&n - 1u32)), le32(&n), le32(&(&n + 1u32)), sig[16..48].to_vec()] {
                            let mut t = c.clone(); t.extend_from_slice(&s); cands.push(t);
                        }
                    }
                    for t in cands.iter().skip(i % 3).step_by(3) { verify(tr, &pk, t, "", &data); }
                    // public keys that are not valid elements / neutral / wrong length
                    for bad in [vec![0u8; 32], vec![0xFFu8; 32], rng.bytes(32), pk[..31].to_vec()] { verify(tr, &bad, &sig, "", &data); }
                }
                // signatures built with a chosen nonce k, so that s = k + c*d lands in a chosen window: just below the order,
                // just above 0, around 2^254 (the order of jq255s is above 2^254, that of jq255e below), around 2^253
                if $cname != "gls254" {
                    use crrl::blake2s::Blake2s256;
                    let two = |e: usize| BigUint::from(1u32) << e;
                    let ks: Vec<BigUint> = vec![two(254), two(254) - two(127), &n - two(127), &n - two(126), two(253), two(253) - two(127),
                                                &n - 1u32, BigUint::from(1u32), two(128), (two(254) + two(125)) % &n];
                    for (i, kv) in ks.iter().enumerate() {
                        for dv in [BigUint::from(1u32), &n - 1u32, BigUint::from(2u32)] {
                            let kv = kv % &n;
                            if kv == BigUint::from(0u32) { continue; }
                            let (ksc, dsc) = (Scalar::decode_reduce(&le32(&kv)), Scalar::decode_reduce(&le32(&dv)));
                            let pk = Point::mulgen(&dsc).encode().to_vec();
                            let r_enc = Point::mulgen(&ksc).encode();
                            // k = 2^254 with d = 1: s = 2^254 + c stays below the order of jq255s only for one challenge in six
                            let reps = if i == 0 && dv == BigUint::from(1u32) { 12 } else { 1 };
                            for rep in 0..reps {
                            let data = rng.bytes(1 + i + rep);
                            let mut sh = Blake2s256::new();
                            sh.update(&r_enc); sh.update(&pk); sh.update(&[0x52u8]); sh.update(&data);
                            let mut cb = [0u8; 16]; cb.copy_from_slice(&sh.finalize()[0..16]);
                            let sv = ksc + dsc * Scalar::from_u128(u128::from_le_bytes(cb));
                            let mut sig = cb.to_vec(); sig.extend_from_slice(&sv.encode());
                            verify(tr, &pk, &sig, "", &data);
                            }
                        }
                    }
                }
                // ECDH: both sides of every pair from a pool that contains public keys whose first byte is
                // 0x00 / 0xFF (boundary of the lexicographic ordering), and failure cases
                let mut pool = keys.clone();
                let mut want: Vec<u8> = vec![0xFF, 0xFF, 0x00, 0x00, 0x7F, 0x80];
                let mut j = 2u32;
                while !want.is_empty() && j < 6000 {
                    let sk = le32(&BigUint::from(j));
                    let pk = Point::mulgen(&Scalar::from_u32(j)).encode().to_vec();
                    if let Some(p) = want.iter().position(|&b| b == pk[0]) { want.remove(p); pool.push((sk, pk)); }
                    j += 1;
                }
                for a in 0..pool.len() { for b in 0..pool.len() {
                    if a == b || (a + b) % 3 == 2 && a < keys.len() && b < keys.len() { continue; }
                    ecdh(tr, &pool[a].0, &pool[b].1);
                } }
                for bad in [vec![0u8; 32], vec![0xFFu8; 32], rng.bytes(32), rng.bytes(32), rng.bytes(31), rng.bytes(33), Vec::new()] {
                    let (sk1, sk2) = (pool[0].0.clone(), pool[1].0.clone());
                    let r1 = ecdh(tr, &sk1, &bad);
                    let r2 = ecdh(tr, &sk2, &bad);
                    if let (Some((k1, s1)), Some((k2, s2))) = (r1, r2) {
                        if s1 == 0 && s2 == 0 {
                            tr.emit(Ev::new("jq_ecdh_fail2").s("c", $cname).b("peer", &bad).b("sk1", &sk1).b("sk2", &sk2)
                                .b("key1", &k1).b("key2", &k2).st("st1", s1).st("st2", s2));
                        }
                    }
                }
            }
        }
    };
}

jq_impl!(jq255e_impl, "jq255e", jq255e);
jq_impl!(jq255s_impl, "jq255s", jq255s);
jq_impl!(gls254_impl, "gls254", gls254);

pub fn run_jq(tr: &mut Trace, rng: &mut Rng, which: &str, honest: usize, adv: usize) {
    match which {
        "jq255e" => jq255e_impl::run(tr, rng, honest, adv),
        "jq255s" => jq255s_impl::run(tr, rng, honest, adv),
        _ => gls254_impl::run(tr, rng, honest, adv),
    }
}

// ------------------------------------------------------------------ truncated signatures (C13)

fn overwrite_tail(sig: &[u8], rm: usize, fill: &[u8]) -> Vec<u8> {
    // the last floor(rm/8) bytes and the top rm%8 bits of the last non-ignored byte
    let mut s = sig.to_vec();
    let nb = rm / 8;
    for i in 0..nb { s[63 - i] = fill[i]; }
    let rb = rm % 8;
    if rb > 0 {
        let m = (0xFFu8 << (8 - rb)) as u8;
        s[63 - nb] = (s[63 - nb] & !m) | (fill[nb] & m);
    }
    s
}

pub fn run_trunc(tr: &mut Trace, rng: &mut Rng, what: &str, n: usize, part: usize, parts: usize) {
    tr.emit(Ev::new("init").s("dom", "trunc"));
    let fills = |rng: &mut Rng, k: usize| -> Vec<u8> { match k % 3 { 0 => vec![0u8; 5], 1 => vec![0xFFu8; 5], _ => rng.bytes(5) } };
    if what == "ed25519" {
        use crrl::ed25519::PrivateKey;
        for i in 0..n {
            let sk = PrivateKey::from_seed(&rng.bytes(32));
            let pk = sk.public_key;
            let msg = { let l = rng.below(40); rng.bytes(l) };
            let mode = ["raw", "ctx", "ph"][i % 3];
            let ctx = if mode == "raw" { Vec::new() } else { let l = rng.below(5); rng.bytes(l) };
            let m2 = if mode == "ph" { rng.bytes(64) } else { msg.clone() };
            let orig = match mode { "raw" => sk.sign_raw(&m2), "ctx" => sk.sign_ctx(&ctx, &m2), _ => sk.sign_ph(&ctx, &m2) }.to_vec();
            let rm = 8 + (i * 7 + rng.below(3)) % 25;
            let f = fills(rng, i);
            let mut cases = vec![overwrite_tail(&orig, rm, &f)];
            // an invalid prefix: a kept bit flipped
            let mut bad = overwrite_tail(&orig, rm, &f); let bit = rng.below(512 - rm); bad[bit / 8] ^= 1 << (bit % 8); cases.push(bad);
            for sig in cases {
                let (pk2, s2, c2, mm, md) = (pk, sig.clone(), ctx.clone(), m2.clone(), mode.to_string());
                let e = Ev::new("ed_trunc").s("mode", mode).b("pk", &pk.encode()).b("msg", &m2).b("ctx", &ctx).b("orig", &orig)
                    .b("sig", &sig).n("rm", rm as i64);
                match guarded(move || match md.as_str() { "raw" => pk2.verify_trunc_raw(&s2, rm, &mm), "ctx" => pk2.verify_trunc_ctx(&s2, rm, &c2, &mm), _ => pk2.verify_trunc_ph(&s2, rm, &c2, &mm) }) {
                    Ok(Some(o)) => tr.emit(e.t("some", true).b("out", &o)),
                    Ok(None) => tr.emit(e.t("some", false)),
                    Err(m) => tr.emit(e.s("panic", &m)),
                }
            }
        }
    } else if what == "sweep" {
        // A = neutral: (R = [S]B, S) verifies for every S.  S walks S0 + j * 2^237 over this chunk of the
        // 2^15 possible values of the bits above 2^237.
        use crrl::ed25519::{Point, PublicKey, Scalar};
        let pk = PublicKey::decode(&{ let mut b = vec![0u8; 32]; b[0] = 1; b }).unwrap();
        let total = 1usize << 15;
        let (lo, hi) = (total * part / parts, total * (part + 1) / parts);
        let low: BigUint = BigUint::from_bytes_le(&rng.bytes(29)) >> 2usize; // random low part below 2^230
        let step = BigUint::from(1u32) << 237;
        let l_order = BigUint::from_bytes_le(&(-Scalar::ONE).encode()) + 1u32;
        let s0 = &low + &step * (lo as u32);
        let le32 = |x: &BigUint| { let mut b = x.to_bytes_le(); if b == [0] { b.clear(); } b.resize(32, 0); b };
        let s0m = if lo == 0 { // start one step below (mod nothing: use low itself and emit from j = 1)
            low.clone() } else { &s0 - &step };
        tr.emit(Ev::new("sweep_init").b("s0", &le32(&s0m)).b("step", &le32(&step)));
        let mut s = s0m.clone();
        let mut k = 0usize;
        let stride = n.max(1);
        let _ = hi;
        for j in lo..hi {
            s += &step;
            if s >= l_order { break; }
            // the harness may skip values (stride); the specification then needs the skipped additions too,
            // so every value is emitted and `n` only selects which rm / fill is used
            let sc = Scalar::decode_reduce(&le32(&s));
            let r = Point::mulgen(&sc).encode();
            let mut orig = r.to_vec(); orig.extend_from_slice(&le32(&s));
            let rm = if j % 5 == 0 { 19 + (j % 14) } else { 32 };
            let sig = overwrite_tail(&orig, rm, &fills(rng, k));
            k += stride;
            let s2 = sig.clone();
            let e = Ev::new("sweep_step").b("orig", &orig).b("sig", &sig).n("rm", rm as i64);
            match guarded(move || pk.verify_trunc_raw(&s2, rm, b"")) {
                Ok(Some(o)) => tr.emit(e.t("some", true).b("out", &o)),
                Ok(None) => tr.emit(e.t("some", false)),
                Err(m) => tr.emit(e.s("panic", &m)),
            }
        }
    } else {
        use crrl::p256::{PrivateKey};
        for i in 0..n {
            let sk = PrivateKey::from_seed(&rng.bytes(32));
            let pk = sk.to_public_key();
            // hash values of any length: shorter ones are right-aligned, longer ones truncated to 32 bytes
            let hv = rng.bytes([32usize, 20, 32, 28, 31, 48, 32, 1, 33, 0][i % 10]);
            let sig = sk.sign_hash(&hv, b"").to_vec();
            let s2 = sig.clone();
            let e = Ev::new("p256_prepare").b("sig", &sig);
            let prep = match guarded(move || PrivateKey::prepare_truncate(&s2)) {
                Ok(Some(p)) => { tr.emit(e.t("some", true).b("out", &p)); p.to_vec() }
                Ok(None) => { tr.emit(e.t("some", false)); continue; }
                Err(m) => { tr.emit(e.s("panic", &m)); continue; }
            };
            let rm = 8 + (i * 5 + rng.below(3)) % 25;
            let f = fills(rng, i);
            let mut cases = vec![overwrite_tail(&prep, rm, &f)];
            let mut bad = overwrite_tail(&prep, rm, &f); let bit = rng.below(512 - rm); bad[bit / 8] ^= 1 << (bit % 8); cases.push(bad);
            for c in cases {
                let (c2, h2) = (c.clone(), hv.clone());
                let e = Ev::new("p256_trunc").b("pk", &pk.encode_uncompressed()).b("hv", &hv).b("orig", &prep).b("sig", &c).n("rm", rm as i64);
                match guarded(move || pk.verify_trunc_hash(&c2, rm, &h2)) {
                    Ok(Some(o)) => tr.emit(e.t("some", true).b("out", &o)),
                    Ok(None) => tr.emit(e.t("some", false)),
                    Err(m) => tr.emit(e.s("panic", &m)),
                }
            }
            // signatures valid by construction with s in the classes that matter to the
            // n - s normalisation of prepare_truncate: pick d, k, s; r = x(kG); h = s*k - r*d
            if i == 0 {
                use crrl::p256::{Point, Scalar};
                use num_bigint::BigUint;
                let nn = BigUint::parse_bytes(b"ffffffff00000000ffffffffffffffffbce6faada7179e84f3b9cac2fc632551", 16).unwrap();
                let one = BigUint::from(1u32);
                let m128: BigUint = &one << 128usize;
                let nl = &nn % &m128;
                let nh = &nn >> 128;
                let mut ss: Vec<BigUint> = vec![one.clone(), (&one << 247usize) + 5u32, (&one << 200) - 1u32, (&one << 130) + 1u32, BigUint::from(2u32), &nn - 1u32, &nn - 2u32, &one << 255, (&one << 255) - 1u32,
                    (&one << 255) + 1u32, (&nn - 1u32) >> 1, (&nn + 1u32) >> 1, m128.clone(), &m128 - 1u32, &nh << 128, (&nh << 128) + &nl - 1u32];
                for _ in 0..(2 + n / 8) {
                    let hi_big = (BigUint::from_bytes_le(&rng.bytes(16)) % (&nh - (&one << 127))) + (&one << 127); // in [2^127, nh)
                    let hi_small = BigUint::from_bytes_le(&rng.bytes(16)) >> 1;
                    for hi in [hi_big, hi_small] {
                        for lo in [BigUint::from(0u32), one.clone(), nl.clone(), &nl - 1u32, &nl + 1u32, &m128 - 1u32] {
                            ss.push((&hi << 128) + lo);
                        }
                    }
                }
                // the unknown (truncated) top bits of the prepared s at the ends of the search range, for several rm and both
                // parities of y(R): first / last index of the giant-step table, both search directions
                let mut forced: Vec<Option<(usize, u8)>> = vec![None; ss.len()];
                for rmx in [32usize, 31, 17, 16, 9, 8] {
                    let lowbits = 255 - (rmx - 1);                       // bits of s that stay known (s < 2^255 after preparation)
                    let low = BigUint::from_bytes_le(&rng.bytes(32)) % (&one << lowbits);
                    let ones = ((&one << (rmx - 1)) - 1u32) << lowbits;
                    for (pi, hi) in [ones.clone(), BigUint::from(0u32), &one << 254usize, &ones - (&one << 254usize), &ones - (&one << lowbits)].iter().enumerate() {
                        for par in 0..2u8 {
                            if rmx != 32 && pi >= 2 && par == 1 { continue; }
                            ss.push(hi + &low); forced.push(Some((rmx, par)));
                        }
                    }
                }
                let be32 = |x: &BigUint| { let mut b = x.to_bytes_le(); b.resize(32, 0); b.reverse(); b };
                for (j, sv) in ss.iter().enumerate() {
                    if *sv == BigUint::from(0u32) || *sv >= nn { continue; }
                    let d = BigUint::from_bytes_le(&rng.bytes(40)) % (&nn - 1u32) + 1u32;
                    let skc = match PrivateKey::decode(&be32(&d)) { Some(x) => x, None => continue };
                    let pkc = skc.to_public_key();
                    let want_short = sv.bits() <= 248;
                    let (mut k, mut r) = (one.clone(), one.clone());
                    for _ in 0..4000 {
                        k = BigUint::from_bytes_le(&rng.bytes(40)) % (&nn - 1u32) + 1u32;
                        let mut kb = k.to_bytes_le(); kb.resize(32, 0);
                        let (ks, _) = Scalar::decode32(&kb);
                        let rp = Point::mulgen(&ks).encode_uncompressed();
                        r = BigUint::from_bytes_be(&rp[1..33]) % &nn;
                        if let Some((_, par)) = forced[j] { if (rp[64] & 1) != par { continue; } }
                        if !want_short || r.bits() <= 248 { break; }
                    }
                    if r == BigUint::from(0u32) { continue; }
                    let h = (sv * &k + &nn * &nn - (&r * &d) % &nn) % &nn;
                    let hvc = be32(&h);
                    let mut sigc = be32(&r); sigc.extend_from_slice(&be32(sv));
                    // the short form of the same signature when both integers have leading zero bytes
                    let z = sigc[..32].iter().take_while(|&&b| b == 0).count().min(sigc[32..].iter().take_while(|&&b| b == 0).count());
                    if z > 0 && j % 2 == 0 { let mut t = sigc[z..32].to_vec(); t.extend_from_slice(&sigc[32 + z..]); sigc = t; }
                    let s2 = sigc.clone();
                    let e = Ev::new("p256_prepare").b("sig", &sigc);
                    let prep = match guarded(move || PrivateKey::prepare_truncate(&s2)) {
                        Ok(Some(p)) => { tr.emit(e.t("some", true).b("out", &p)); p.to_vec() }
                        Ok(None) => { tr.emit(e.t("some", false)); continue; }
                        Err(m) => { tr.emit(e.s("panic", &m)); continue; }
                    };
                    let rm = match forced[j] { Some((x, _)) => x, None => 8 + (j * 7) % 25 };
                    let c = overwrite_tail(&prep, rm, &fills(rng, j));
                    let (c2, h2) = (c.clone(), hvc.clone());
                    let e = Ev::new("p256_trunc").b("pk", &pkc.encode_uncompressed()).b("hv", &hvc).b("orig", &prep).b("sig", &c).n("rm", rm as i64);
                    match guarded(move || pkc.verify_trunc_hash(&c2, rm, &h2)) {
                        Ok(Some(o)) => tr.emit(e.t("some", true).b("out", &o)),
                        Ok(None) => tr.emit(e.t("some", false)),
                        Err(m) => tr.emit(e.s("panic", &m)),
                    }
                }
            }
            // range failures of prepare_truncate
            if i == 0 {
                for bad in [vec![0u8; 64], vec![0xFFu8; 64], sig[..63].to_vec()] {
                    let b2 = bad.clone();
                    let e = Ev::new("p256_prepare").b("sig", &bad);
                    match guarded(move || PrivateKey::prepare_truncate(&b2)) {
                        Ok(Some(p)) => tr.emit(e.t("some", true).b("out", &p)),
                        Ok(None) => tr.emit(e.t("some", false)),
                        Err(m) => tr.emit(e.s("panic", &m)),
                    }
                }
            }
        }
    }
}
