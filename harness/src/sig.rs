// Signature / key-exchange domain (C07, C08, C14): self-contained events.
// The harness builds adversarial inputs with crrl's own public point/scalar
// API (torsion components, non-canonical encodings, out-of-range S); whether
// each must verify is decided by TLC from the specification, never here.

use crate::out::{guarded, Ev, Trace};
use crate::rng::Rng;
use num_bigint::BigUint;

fn lens_msg(rng: &mut Rng) -> usize {
    *rng.pick(&[0usize, 1, 2, 31, 32, 33, 63, 64, 65, 111, 112, 127, 128, 129, 200])
}

// ------------------------------------------------------------------ X25519 / X448

pub fn run_xdh(tr: &mut Trace, rng: &mut Rng, n: usize) {
    tr.emit(Ev::new("init").s("dom", "xdh"));
    let one = BigUint::from(1u32);
    let p25519 = (&one << 255) - 19u32;
    let p448 = (&one << 448) - (&one << 224) - 1u32;
    // u-coordinates: 0, 1, p-1, p, p+1..p+18 (non-canonical), 2^255-1, top bit set, the
    // small-order values of RFC 7748 / the usual blacklist, random
    let mut us: Vec<Vec<u8>> = Vec::new();
    let le32 = |x: &BigUint| { let mut b = x.to_bytes_le(); b.resize(32, 0); b };
    for k in 0..20u32 { us.push(le32(&BigUint::from(k))); us.push(le32(&(&p25519 - 1u32 - k))); us.push(le32(&(&p25519 + k))); }
    us.push(vec![0xFFu8; 32]);
    for h in ["e0eb7a7c3b41b8ae1656e3faf19fc46ada098deb9c32b1fd866205165f49b800",
              "5f9c95bca3508c24b1d0b1559c83ef5b04445cc4581c8e86d8224eddd09f1157",
              "ecffffffffffffffffffffffffffffffffffffffffffffffffffffffffffff7f",
              "edffffffffffffffffffffffffffffffffffffffffffffffffffffffffffff7f",
              "eeffffffffffffffffffffffffffffffffffffffffffffffffffffffffffff7f"] {
        let b: Vec<u8> = (0..32).map(|i| u8::from_str_radix(&h[2 * i..2 * i + 2], 16).unwrap()).collect();
        let mut t = b.clone(); t[31] |= 0x80; us.push(t);
        us.push(b);
    }
    let ks: Vec<Vec<u8>> = vec![vec![0u8; 32], vec![0xFFu8; 32], { let mut k = vec![0u8; 32]; k[0] = 7; k[31] = 0x80; k }];
    let mut cases: Vec<(Vec<u8>, Vec<u8>)> = Vec::new();
    for u in us.iter() { cases.push((u.clone(), rng.bytes(32))); }
    for k in ks.iter() { cases.push((rng.bytes(32), k.clone())); cases.push((us[rng.below(us.len())].clone(), k.clone())); }
    for _ in 0..n { let mut u = rng.bytes(32); if rng.chance(1, 2) { u[31] &= 0x7F; } cases.push((u, rng.bytes(32))); }
    for (u, k) in cases {
        let (ua, ka): ([u8; 32], [u8; 32]) = (u.clone().try_into().unwrap(), k.clone().try_into().unwrap());
        let e = Ev::new("x25519").b("k", &k).b("u", &u);
        match guarded(move || crrl::x25519::x25519(&ua, &ka)) { Ok(o) => tr.emit(e.b("out", &o)), Err(m) => tr.emit(e.s("panic", &m)) }
    }
    for i in 0..(n / 2 + 6) {
        let k = if i < ks.len() { ks[i].clone() } else { rng.bytes(32) };
        let ka: [u8; 32] = k.clone().try_into().unwrap();
        let e = Ev::new("x25519_base").b("k", &k);
        match guarded(move || crrl::x25519::x25519_base(&ka)) { Ok(o) => tr.emit(e.b("out", &o)), Err(m) => tr.emit(e.s("panic", &m)) }
    }
    // X448
    let le56 = |x: &BigUint| { let mut b = x.to_bytes_le(); b.resize(56, 0); b };
    let mut us: Vec<Vec<u8>> = Vec::new();
    for k in 0..8u32 { us.push(le56(&BigUint::from(k))); us.push(le56(&(&p448 - 1u32 - k))); us.push(le56(&(&p448 + k))); }
    us.push(vec![0xFFu8; 56]);
    let ks: Vec<Vec<u8>> = vec![vec![0u8; 56], vec![0xFFu8; 56]];
    let mut cases: Vec<(Vec<u8>, Vec<u8>)> = Vec::new();
    for u in us.iter() { cases.push((u.clone(), rng.bytes(56))); }
    for k in ks.iter() { cases.push((rng.bytes(56), k.clone())); }
    for _ in 0..(n / 3) { cases.push((rng.bytes(56), rng.bytes(56))); }
    for (u, k) in cases {
        let (ua, ka): ([u8; 56], [u8; 56]) = (u.clone().try_into().unwrap(), k.clone().try_into().unwrap());
        let e = Ev::new("x448").b("k", &k).b("u", &u);
        match guarded(move || crrl::x448::x448(&ua, &ka)) { Ok(o) => tr.emit(e.b("out", &o)), Err(m) => tr.emit(e.s("panic", &m)) }
    }
    for i in 0..(n / 6 + 4) {
        let k = if i < ks.len() { ks[i].clone() } else { rng.bytes(56) };
        let ka: [u8; 56] = k.clone().try_into().unwrap();
        let e = Ev::new("x448_base").b("k", &k);
        match guarded(move || crrl::x448::x448_base(&ka)) { Ok(o) => tr.emit(e.b("out", &o)), Err(m) => tr.emit(e.s("panic", &m)) }
    }
}

// ------------------------------------------------------------------ EdDSA

macro_rules! eddsa_impl {
    ($modname:ident, $cname:expr, $m:ident, $seedlen:expr, $plen:expr, $hashk:expr, $torsion:expr) => {
        mod $modname {
            use super::*;
            use crrl::$m::{Point, PrivateKey, PublicKey, Scalar};

            fn verify(tr: &mut Trace, mode: &str, pk: &[u8], sig: &[u8], ctx: &[u8], msg: &[u8]) {
                // the raw (pure) variants take no context: it is the empty string
                let ctx: &[u8] = if mode == "raw" { &[] } else { ctx };
                let e = Ev::new("ed_verify").s("c", $cname).s("mode", mode).b("pk", pk).b("sig", sig).b("ctx", ctx).b("msg", msg);
                let (pkv, sigv, ctxv, msgv, md) = (pk.to_vec(), sig.to_vec(), ctx.to_vec(), msg.to_vec(), mode.to_string());
                match guarded(move || PublicKey::decode(&pkv).map(|k| match md.as_str() {
                    "raw" => k.verify_raw(&sigv, &msgv),
                    "ctx" => k.verify_ctx(&sigv, &ctxv, &msgv),
                    _ => k.verify_ph(&sigv, &ctxv, &msgv),
                })) {
                    Ok(None) => tr.emit(e.t("pkok", false)),
                    Ok(Some(r)) => tr.emit(e.t("pkok", true).t("res", r)),
                    Err(m) => tr.emit(e.s("panic", &m)),
                }
            }

            fn sign(tr: &mut Trace, mode: &str, seed: &[u8], ctx: &[u8], msg: &[u8]) -> Option<Vec<u8>> {
                let ctx: &[u8] = if mode == "raw" { &[] } else { ctx };
                let e = Ev::new("ed_sign").s("c", $cname).s("mode", mode).b("seed", seed).b("ctx", ctx).b("msg", msg);
                let (sv, ctxv, msgv, md) = (seed.to_vec(), ctx.to_vec(), msg.to_vec(), mode.to_string());
                match guarded(move || { let k = PrivateKey::from_seed(&sv); match md.as_str() {
                    "raw" => k.sign_raw(&msgv).to_vec(),
                    "ctx" => k.sign_ctx(&ctxv, &msgv).to_vec(),
                    _ => k.sign_ph(&ctxv, &msgv).to_vec(),
                } }) {
                    Ok(s) => { tr.emit(e.b("sig", &s)); Some(s) }
                    Err(m) => { tr.emit(e.s("panic", &m)); None }
                }
            }

            fn keygen(tr: &mut Trace, seed: &[u8]) -> Option<Vec<u8>> {
                let sv = seed.to_vec();
                let e = Ev::new("ed_keygen").s("c", $cname).b("seed", seed);
                match guarded(move || PrivateKey::from_seed(&sv).public_key.encode().to_vec()) {
                    Ok(pk) => { tr.emit(e.b("pk", &pk)); Some(pk) }
                    Err(m) => { tr.emit(e.s("panic", &m)); None }
                }
            }

            // challenge scalar k = H(dom || R || A || M) mod L, computed with crrl's own hash
            fn challenge(mode: &str, rb: &[u8], pk: &[u8], ctx: &[u8], msg: &[u8]) -> Scalar {
                let ctx: &[u8] = if mode == "raw" { &[] } else { ctx };
                let mut inp: Vec<u8> = Vec::new();
                if $plen == 57 {
                    inp.extend_from_slice(b"SigEd448"); inp.push(if mode == "ph" { 1 } else { 0 }); inp.push(ctx.len() as u8); inp.extend_from_slice(ctx);
                } else if mode != "raw" {
                    inp.extend_from_slice(b"SigEd25519 no Ed25519 collisions"); inp.push(if mode == "ph" { 1 } else { 0 }); inp.push(ctx.len() as u8); inp.extend_from_slice(ctx);
                }
                inp.extend_from_slice(rb); inp.extend_from_slice(pk); inp.extend_from_slice(msg);
                let h: Vec<u8> = $hashk(&inp);
                Scalar::decode_reduce(&h)
            }

            pub fn run(tr: &mut Trace, rng: &mut Rng, n_honest: usize, n_adv: usize) {
                tr.emit(Ev::new("init").s("dom", $cname));
                let modes = ["raw", "ctx", "ph"];
                // honest: keygen, sign, verify over message / context length boundaries; one-bit flips
                for i in 0..n_honest {
                    let seed = rng.bytes($seedlen);
                    let mode = modes[i % 3];
                    let ctx = if mode == "raw" && $plen == 32 { Vec::new() } else { { let l = *rng.pick(&[0usize, 1, 5, 254, 255]); rng.bytes(l) } };
                    let msg = if mode == "ph" { rng.bytes(64) } else { { let l = lens_msg(rng); rng.bytes(l) } };
                    let pk = match keygen(tr, &seed) { Some(p) => p, None => continue };
                    let sig = match sign(tr, mode, &seed, &ctx, &msg) { Some(s) => s, None => continue };
                    verify(tr, mode, &pk, &sig, &ctx, &msg);
                    let mut s2 = sig.clone(); let bit = rng.below(8 * s2.len()); s2[bit / 8] ^= 1 << (bit % 8);
                    verify(tr, mode, &pk, &s2, &ctx, &msg);
                    if i % 3 == 0 {
                        let mut m2 = msg.clone(); if m2.is_empty() { m2.push(0); } else { let b = rng.below(8 * m2.len()); m2[b / 8] ^= 1 << (b % 8); }
                        verify(tr, mode, &pk, &sig, &ctx, &m2);
                        let other = if mode == "raw" { "ctx" } else { "raw" };
                        verify(tr, other, &pk, &sig, &ctx, &msg);
                        let mut s3 = sig.clone(); s3.push(0); verify(tr, mode, &pk, &s3, &ctx, &msg);
                        s3.truncate(sig.len() - 1); verify(tr, mode, &pk, &s3, &ctx, &msg);
                    }
                }
                // adversarial: A = a*B + T1, R = r*B + T2 with T1, T2 small-order points (by their
                // well-known encodings), S = r + k*a mod L, so that the cofactored equation holds;
                // then S-classes and encoding classes
                let tors: Vec<Vec<u8>> = $torsion();
                let tpts: Vec<Point> = tors.iter().filter_map(|e| Point::decode(e)).collect();
                let l_bytes = { let mut b = (-Scalar::ONE).encode().to_vec(); // L - 1
                    let mut c = 1u16; for x in b.iter_mut() { let t = *x as u16 + c; *x = t as u8; c = t >> 8; } b };
                for i in 0..n_adv {
                    let mode = modes[(i / 4) % 3];
                    let ctx = if mode == "raw" && $plen == 32 { Vec::new() } else { { let l = rng.below(4); rng.bytes(l) } };
                    let msg = if mode == "ph" { rng.bytes(64) } else { { let l = rng.below(40); rng.bytes(l) } };
                    let a = Scalar::decode_reduce(&rng.bytes(64));
                    let r = Scalar::decode_reduce(&rng.bytes(64));
                    let (t1, t2) = (tpts[rng.below(tpts.len())], tpts[rng.below(tpts.len())]);
                    // A is sometimes a pure small-order point (a = 0), R likewise
                    let a = if i % 5 == 0 { Scalar::ZERO } else { a };
                    let r = if i % 7 == 0 { Scalar::ZERO } else { r };
                    let pa = Point::mulgen(&a) + t1;
                    let pr = Point::mulgen(&r) + t2;
                    let pk = pa.encode().to_vec();
                    let rb = pr.encode().to_vec();
                    let k = challenge(mode, &rb, &pk, &ctx, &msg);
                    let s = r + k * a;
                    let sb = { let mut b = s.encode().to_vec(); b.resize($plen, 0); b };
                    let mut sig = rb.clone(); sig.extend_from_slice(&sb);
                    verify(tr, mode, &pk, &sig, &ctx, &msg);
                    match i % 4 {
                        0 => { // S + L (same residue, non-canonical)
                            let mut b = sb.clone(); let mut c = 0u16;
                            for j in 0..b.len() { let t = b[j] as u16 + (if j < l_bytes.len() { l_bytes[j] } else { 0 }) as u16 + c; b[j] = t as u8; c = t >> 8; }
                            let mut sg = rb.clone(); sg.extend_from_slice(&b); verify(tr, mode, &pk, &sg, &ctx, &msg);
                        }
                        1 => { // S in {L-1, L, L+1} and 0 with this R, A
                            for d in [0u8, 1, 2] {
                                let mut b = (-Scalar::ONE).encode().to_vec(); b.resize($plen, 0);
                                let mut c = d as u16; for x in b.iter_mut() { let t = *x as u16 + c; *x = t as u8; c = t >> 8; }
                                let mut sg = rb.clone(); sg.extend_from_slice(&b); verify(tr, mode, &pk, &sg, &ctx, &msg);
                            }
                            let mut sg = rb.clone(); sg.extend_from_slice(&vec![0u8; $plen]); verify(tr, mode, &pk, &sg, &ctx, &msg);
                        }
                        2 => { // encoding classes of R and A: flip the sign bit (x = 0 points become invalid,
                               // others become another point), set unused bits
                            let mut sg = sig.clone(); sg[$plen - 1] ^= 0x80; verify(tr, mode, &pk, &sg, &ctx, &msg);
                            let mut p2 = pk.clone(); p2[$plen - 1] ^= 0x80; verify(tr, mode, &p2, &sig, &ctx, &msg);
                            if $plen == 57 { let mut sg = sig.clone(); sg[56] ^= 0x01; verify(tr, mode, &pk, &sg, &ctx, &msg);
                                             let mut sg = sig.clone(); sg[113] ^= 0x80; verify(tr, mode, &pk, &sg, &ctx, &msg); }
                        }
                        _ => { // small-order / non-canonical encodings used directly as R and as A with S = 0 and S = s
                            let enc = tors[rng.below(tors.len())].clone();
                            let mut sg = enc.clone(); sg.extend_from_slice(&vec![0u8; $plen]); verify(tr, mode, &pk, &sg, &ctx, &msg);
                            let mut sg = rb.clone(); sg.extend_from_slice(&vec![0u8; $plen]); verify(tr, mode, &enc, &sg, &ctx, &msg);
                            let enc2 = tors[rng.below(tors.len())].clone();
                            let mut sg = enc2.clone(); sg.extend_from_slice(&vec![0u8; $plen]); verify(tr, mode, &enc, &sg, &ctx, &msg);
                        }
                    }
                }
            }
        }
    };
}

fn h512(inp: &[u8]) -> Vec<u8> { crrl::sha2::Sha512::hash(inp).to_vec() }
fn hshake(inp: &[u8]) -> Vec<u8> {
    let mut sh = crrl::sha3::SHAKE256::new();
    sh.inject(inp);
    let mut o = vec![0u8; 114];
    sh.flip_extract(&mut o);
    o
}
fn hexb(s: &str) -> Vec<u8> { (0..s.len() / 2).map(|i| u8::from_str_radix(&s[2 * i..2 * i + 2], 16).unwrap()).collect() }

// small-order points and the non-canonical / invalid aliases of their encodings
fn torsion25519() -> Vec<Vec<u8>> {
    let mut v = Vec::new();
    for h in ["0100000000000000000000000000000000000000000000000000000000000000",
              "ecffffffffffffffffffffffffffffffffffffffffffffffffffffffffffff7f",
              "0000000000000000000000000000000000000000000000000000000000000000",
              "0000000000000000000000000000000000000000000000000000000000000080",
              "26e8958fc2b227b045c3f489f2ef98f0d5dfac05d3c63339b13802886d53fc05",
              "26e8958fc2b227b045c3f489f2ef98f0d5dfac05d3c63339b13802886d53fc85",
              "c7176a703d4dd84fba3c0b760d10670f2a2053fa2c39ccc64ec7fd7792ac037a",
              "c7176a703d4dd84fba3c0b760d10670f2a2053fa2c39ccc64ec7fd7792ac03fa",
              // aliases: x = 0 with the sign bit set (y = 1, y = -1), y + p for y = 0, 1
              "0100000000000000000000000000000000000000000000000000000000000080",
              "ecffffffffffffffffffffffffffffffffffffffffffffffffffffffffffffff",
              "edffffffffffffffffffffffffffffffffffffffffffffffffffffffffffff7f",
              "eeffffffffffffffffffffffffffffffffffffffffffffffffffffffffffff7f",
              "edffffffffffffffffffffffffffffffffffffffffffffffffffffffffffffff",
              "eeffffffffffffffffffffffffffffffffffffffffffffffffffffffffffffff"] {
        v.push(hexb(h));
    }
    v
}

fn torsion448() -> Vec<Vec<u8>> {
    let mut v = Vec::new();
    let mut one = vec![0u8; 57]; one[0] = 1; v.push(one.clone());
    let mut m1 = vec![0xFFu8; 57]; m1[0] = 0xFE; m1[28] = 0xFE; m1[56] = 0; v.push(m1.clone());
    v.push(vec![0u8; 57]);
    let mut x1 = vec![0u8; 57]; x1[56] = 0x80; v.push(x1);
    // aliases: x = 0 with sign bit, y = p, y = p + 1, stray bits in the last byte
    one[56] = 0x80; v.push(one.clone());
    m1[56] = 0x80; v.push(m1.clone());
    let mut yp = vec![0xFFu8; 57]; yp[28] = 0xFE; yp[56] = 0; v.push(yp.clone());
    yp[0] = 0; yp[28] = 0xFF; // not a simple +1; keep as an arbitrary large value
    v.push(yp);
    let mut st = vec![0u8; 57]; st[0] = 1; st[56] = 0x01; v.push(st);
    v
}

eddsa_impl!(ed25519_impl, "ed25519", ed25519, 32, 32, h512, torsion25519);
eddsa_impl!(ed448_impl, "ed448", ed448, 57, 57, hshake, torsion448);

pub fn run_eddsa(tr: &mut Trace, rng: &mut Rng, which: &str, honest: usize, adv: usize) {
    match which {
        "ed25519" => ed25519_impl::run(tr, rng, honest, adv),
        _ => ed448_impl::run(tr, rng, honest, adv),
    }
}

// ------------------------------------------------------------------ ECDSA

macro_rules! ecdsa_impl {
    ($modname:ident, $cname:expr, $m:ident, $nhex:expr) => {
        mod $modname {
            use super::*;
            use crrl::$m::{Point, PrivateKey, PublicKey, Scalar};

            fn order() -> BigUint { BigUint::parse_bytes($nhex.as_bytes(), 16).unwrap() }
            fn be32(x: &BigUint) -> Vec<u8> { let mut b = x.to_bytes_be(); while b.len() < 32 { b.insert(0, 0); } b }

            fn verify(tr: &mut Trace, pk: &[u8], sig: &[u8], hv: &[u8]) {
                let e = Ev::new("ecdsa_verify").s("c", $cname).b("pk", pk).b("sig", sig).b("hv", hv);
                let (pkv, sigv, hvv) = (pk.to_vec(), sig.to_vec(), hv.to_vec());
                match guarded(move || PublicKey::decode(&pkv).map(|k| k.verify_hash(&sigv, &hvv))) {
                    Ok(None) => tr.emit(e.t("pkok", false)),
                    Ok(Some(r)) => tr.emit(e.t("pkok", true).t("res", r)),
                    Err(m) => tr.emit(e.s("panic", &m)),
                }
            }
            fn keygen(tr: &mut Trace, sk: &[u8]) -> Option<Vec<u8>> {
                let skv = sk.to_vec();
                let e = Ev::new("ecdsa_keygen").s("c", $cname).b("sk", sk);
                match guarded(move || PrivateKey::decode(&skv).map(|k| k.to_public_key().encode_uncompressed().to_vec())) {
                    Ok(None) => { tr.emit(e.t("skok", false)); None }
                    Ok(Some(pk)) => { tr.emit(e.t("skok", true).b("pk", &pk)); Some(pk) }
                    Err(m) => { tr.emit(e.s("panic", &m)); None }
                }
            }
            fn sign(tr: &mut Trace, sk: &[u8], hv: &[u8], extra: &[u8]) -> Option<Vec<u8>> {
                let (skv, hvv, ex) = (sk.to_vec(), hv.to_vec(), extra.to_vec());
                let e = Ev::new("ecdsa_sign").s("c", $cname).b("sk", sk).b("hv", hv).b("extra", extra);
                match guarded(move || PrivateKey::decode(&skv).map(|k| k.sign_hash(&hvv, &ex).to_vec())) {
                    Ok(Some(s)) => { tr.emit(e.b("sig", &s)); Some(s) }
                    Ok(None) => None,
                    Err(m) => { tr.emit(e.s("panic", &m)); None }
                }
            }

            pub fn run(tr: &mut Trace, rng: &mut Rng, n_honest: usize, n_adv: usize) {
                tr.emit(Ev::new("init").s("dom", $cname));
                let n = order();
                let one = BigUint::from(1u32);
                // key decoding boundaries
                for sk in [vec![0u8; 32], be32(&one), be32(&(&n - 1u32)), be32(&n), be32(&(&n + 1u32)), vec![0xFFu8; 32],
                           vec![0u8; 31], vec![1u8; 33], Vec::new()] {
                    keygen(tr, &sk);
                }
                let hlens = [0usize, 1, 20, 31, 32, 33, 48, 64];
                let elens = [0usize, 0, 1, 32, 100];
                for i in 0..n_honest {
                    let sk = match i { 0 => be32(&one), 1 => be32(&(&n - 1u32)), _ => be32(&(BigUint::from_bytes_be(&rng.bytes(40)) % (&n - 1u32) + 1u32)) };
                    let hv = match i % 5 { 0 => vec![0u8; hlens[i % 8]], 1 => vec![0xFFu8; hlens[i % 8]], _ => rng.bytes(hlens[i % 8]) };
                    let extra = rng.bytes(elens[i % 5]);
                    let pk = match keygen(tr, &sk) { Some(p) => p, None => continue };
                    let sig = match sign(tr, &sk, &hv, &extra) { Some(s) => s, None => continue };
                    verify(tr, &pk, &sig, &hv);
                    // compressed public key, longer signature with zero / non-zero surplus, shorter, odd
                    let pkc = PublicKey::decode(&pk).unwrap().encode_compressed().to_vec();
                    verify(tr, &pkc, &sig, &hv);
                    let mut wide = vec![0u8; 2]; wide.extend_from_slice(&sig[..32]); wide.extend_from_slice(&[0, 0]); wide.extend_from_slice(&sig[32..]);
                    verify(tr, &pk, &wide, &hv);
                    wide[1] = 1; verify(tr, &pk, &wide, &hv);
                    let mut odd = sig.clone(); odd.push(0); verify(tr, &pk, &odd, &hv);
                    if sig[0] == 0 && sig[32] == 0 { let mut sh = sig[1..32].to_vec(); sh.extend_from_slice(&sig[33..]); verify(tr, &pk, &sh, &hv); }
                    let mut s2 = sig.clone(); let bit = rng.below(512); s2[bit / 8] ^= 1 << (bit % 8); verify(tr, &pk, &s2, &hv);
                    let mut h2 = hv.clone(); if !h2.is_empty() { h2[0] ^= 1; verify(tr, &pk, &sig, &h2); }
                    // bytes of the hash beyond the first 32 are ignored
                    if hv.len() > 32 { let mut h3 = hv.clone(); let l = h3.len(); h3[l - 1] ^= 0xFF; verify(tr, &pk, &sig, &h3); }
                }
                // range lattice for (r, s) under a fixed key, and signatures valid by construction:
                // choose k, s freely, x = (s*k - h)/r
                let sk = be32(&(BigUint::from_bytes_be(&rng.bytes(40)) % (&n - 1u32) + 1u32));
                if let Some(pk) = keygen(tr, &sk) {
                    let vals = [BigUint::from(0u32), one.clone(), &n - 1u32, n.clone(), &n + 1u32, (&one << 256) - 1u32];
                    let hv = rng.bytes(32);
                    for r in vals.iter() { for s in vals.iter() {
                        let mut sig = be32(r); sig.extend_from_slice(&be32(s)); verify(tr, &pk, &sig, &hv);
                    } }
                    for l in [0usize, 2, 62, 66, 128] { verify(tr, &pk, &rng.bytes(l), &hv); }
                }
                for _ in 0..n_adv {
                    let k = Scalar::decode_reduce(&rng.bytes(48));
                    let pr = Point::mulgen(&k);
                    let enc = pr.encode_uncompressed();
                    let r = Scalar::decode_reduce(&{ let mut x = enc[1..33].to_vec(); x.reverse(); x });
                    let s = match rng.below(4) { 0 => Scalar::ONE, 1 => -Scalar::ONE, _ => Scalar::decode_reduce(&rng.bytes(48)) };
                    let hl = *rng.pick(&[20usize, 32, 40]);
                    let hv = rng.bytes(hl);
                    let h = Scalar::decode_reduce(&{ let mut x = hv[..hv.len().min(32)].to_vec(); x.reverse(); x });
                    if r.iszero() != 0 || s.iszero() != 0 { continue; }
                    let x = (s * k - h) / r;
                    if x.iszero() != 0 { continue; }
                    let pk = Point::mulgen(&x).encode_uncompressed().to_vec();
                    let mut sig = { let mut b = r.encode().to_vec(); b.reverse(); b };
                    sig.extend_from_slice(&{ let mut b = s.encode().to_vec(); b.reverse(); b });
                    verify(tr, &pk, &sig, &hv);
                    // the point-at-infinity outcome: Q = -(h/r)*G makes [h/s]G + [r/s]Q the neutral
                    let q = -(Point::mulgen(&(h / r)));
                    if q.isneutral() == 0 { verify(tr, &q.encode_uncompressed().to_vec(), &sig, &hv); }
                }
                // x(R) in [n, p-1]: R = (n + j, y) on the curve, r = j.  The verifier must reduce
                // x(R) modulo n before comparing with r.
                let mut found = 0;
                let mut j = 1u32;
                while found < 3 && j < 400 {
                    let x = &n + j;
                    let mut enc = vec![2u8 + (rng.below(2) as u8)]; enc.extend_from_slice(&be32(&x));
                    if let Some(pr) = Point::decode(&enc) {
                        found += 1;
                        let r = Scalar::from_u32(j);
                        let s = Scalar::decode_reduce(&rng.bytes(48));
                        let hv = rng.bytes(32);
                        let h = Scalar::decode_reduce(&{ let mut x = hv.clone(); x.reverse(); x });
                        if s.iszero() == 0 {
                            let q = (pr * s - Point::mulgen(&h)) * (Scalar::ONE / r);
                            let mut sig = { let mut b = r.encode().to_vec(); b.reverse(); b };
                            sig.extend_from_slice(&{ let mut b = s.encode().to_vec(); b.reverse(); b });
                            if q.isneutral() == 0 {
                                verify(tr, &q.encode_uncompressed().to_vec(), &sig, &hv);
                                let mut s2 = sig.clone(); s2[31] ^= 1; verify(tr, &q.encode_uncompressed().to_vec(), &s2, &hv);
                            }
                        }
                    }
                    j += 1;
                }
                // public keys: infinity encodings and malformed
                let hv = rng.bytes(32);
                let sig = rng.bytes(64);
                for pk in [vec![0u8], vec![0u8; 33], vec![0u8; 65], vec![4u8; 65], vec![2u8; 33]] { verify(tr, &pk, &sig, &hv); }
            }
        }
    };
}

ecdsa_impl!(p256_impl, "p256", p256, "ffffffff00000000ffffffffffffffffbce6faada7179e84f3b9cac2fc632551");
ecdsa_impl!(k1_impl, "secp256k1", secp256k1, "fffffffffffffffffffffffffffffffebaaedce6af48a03bbfd25e8cd0364141");

pub fn run_ecdsa(tr: &mut Trace, rng: &mut Rng, which: &str, honest: usize, adv: usize) {
    match which {
        "p256" => p256_impl::run(tr, rng, honest, adv),
        _ => k1_impl::run(tr, rng, honest, adv),
    }
}
