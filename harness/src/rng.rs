// Deterministic generator (xoshiro256**, seeded through splitmix64) for the
// harness's input choices; also implements rand_core's traits for the crrl
// APIs that want an RNG.

use rand_core::{CryptoRng, Error, RngCore};

#[derive(Clone)]
pub struct Rng {
    s: [u64; 4],
}

impl Rng {
    pub fn new(seed: u64) -> Rng {
        let mut z = seed;
        let mut s = [0u64; 4];
        for i in 0..4 {
            z = z.wrapping_add(0x9E3779B97F4A7C15);
            let mut x = z;
            x = (x ^ (x >> 30)).wrapping_mul(0xBF58476D1CE4E5B9);
            x = (x ^ (x >> 27)).wrapping_mul(0x94D049BB133111EB);
            s[i] = x ^ (x >> 31);
        }
        Rng { s }
    }
    pub fn u64(&mut self) -> u64 {
        let r = self.s[1].wrapping_mul(5).rotate_left(7).wrapping_mul(9);
        let t = self.s[1] << 17;
        self.s[2] ^= self.s[0];
        self.s[3] ^= self.s[1];
        self.s[1] ^= self.s[2];
        self.s[0] ^= self.s[3];
        self.s[2] ^= t;
        self.s[3] = self.s[3].rotate_left(45);
        r
    }
    pub fn below(&mut self, n: usize) -> usize {
        (self.u64() % (n as u64)) as usize
    }
    pub fn bytes(&mut self, n: usize) -> Vec<u8> {
        let mut v = vec![0u8; n];
        self.fill(&mut v);
        v
    }
    pub fn fill(&mut self, v: &mut [u8]) {
        for c in v.chunks_mut(8) {
            let x = self.u64().to_le_bytes();
            c.copy_from_slice(&x[..c.len()]);
        }
    }
    pub fn pick<'a, T>(&mut self, v: &'a [T]) -> &'a T {
        &v[self.below(v.len())]
    }
    pub fn chance(&mut self, num: u64, den: u64) -> bool {
        self.u64() % den < num
    }
}

impl RngCore for Rng {
    fn next_u32(&mut self) -> u32 {
        self.u64() as u32
    }
    fn next_u64(&mut self) -> u64 {
        self.u64()
    }
    fn fill_bytes(&mut self, dest: &mut [u8]) {
        self.fill(dest)
    }
    fn try_fill_bytes(&mut self, dest: &mut [u8]) -> Result<(), Error> {
        self.fill(dest);
        Ok(())
    }
}

impl CryptoRng for Rng {}
