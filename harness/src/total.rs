// Totality domain (C19): every function that consumes untrusted bytes, called
// with every length 0..=2*nominal+1 and several content classes.  Records
// whether the call returned, and any status word.  A panic or a hang
// (watchdog) is recorded as data.

use crate::out::{guarded_timeout, Ev, Trace};
use crate::rng::Rng;

type F = Box<dyn Fn(&[u8]) -> String + Send + Sync>;

fn st(w: u32) -> String {
    match w { 0 => "zero".into(), 0xFFFFFFFF => "ones".into(), x => format!("bad:{:08x}", x) }
}
fn none() -> String { "none".into() }

fn functions() -> Vec<(&'static str, usize, F)> {
    let mut v: Vec<(&'static str, usize, F)> = Vec::new();
    macro_rules! add { ($name:expr, $len:expr, $f:expr) => { v.push(($name, $len, Box::new($f))); }; }
    // ---- group element and key decoding
    add!("ed25519::Point::decode", 32, |b: &[u8]| { let mut p = crrl::ed25519::Point::NEUTRAL; st(p.set_decode(b)) });
    add!("ed448::Point::decode", 57, |b: &[u8]| { let mut p = crrl::ed448::Point::NEUTRAL; st(p.set_decode(b)) });
    add!("p256::Point::decode", 65, |b: &[u8]| { let mut p = crrl::p256::Point::NEUTRAL; st(p.set_decode(b)) });
    add!("secp256k1::Point::decode", 65, |b: &[u8]| { let mut p = crrl::secp256k1::Point::NEUTRAL; st(p.set_decode(b)) });
    add!("ristretto255::Point::decode", 32, |b: &[u8]| { let mut p = crrl::ristretto255::Point::NEUTRAL; st(p.set_decode(b)) });
    add!("decaf448::Point::decode", 56, |b: &[u8]| { let mut p = crrl::decaf448::Point::NEUTRAL; st(p.set_decode(b)) });
    add!("jq255e::Point::decode", 32, |b: &[u8]| { let mut p = crrl::jq255e::Point::NEUTRAL; st(p.set_decode(b)) });
    add!("jq255s::Point::decode", 32, |b: &[u8]| { let mut p = crrl::jq255s::Point::NEUTRAL; st(p.set_decode(b)) });
    add!("gls254::Point::decode", 32, |b: &[u8]| { let mut p = crrl::gls254::Point::NEUTRAL; st(p.set_decode(b)) });
    add!("ed25519::PublicKey::decode", 32, |b: &[u8]| { let _ = crrl::ed25519::PublicKey::decode(b); none() });
    add!("ed448::PublicKey::decode", 57, |b: &[u8]| { let _ = crrl::ed448::PublicKey::decode(b); none() });
    add!("p256::PublicKey::decode", 65, |b: &[u8]| { let _ = crrl::p256::PublicKey::decode(b); none() });
    add!("p256::PrivateKey::decode", 32, |b: &[u8]| { let _ = crrl::p256::PrivateKey::decode(b); none() });
    add!("secp256k1::PublicKey::decode", 65, |b: &[u8]| { let _ = crrl::secp256k1::PublicKey::decode(b); none() });
    add!("secp256k1::PrivateKey::decode", 32, |b: &[u8]| { let _ = crrl::secp256k1::PrivateKey::decode(b); none() });
    add!("jq255e::PublicKey::decode", 32, |b: &[u8]| { let _ = crrl::jq255e::PublicKey::decode(b); none() });
    add!("jq255e::PrivateKey::decode", 32, |b: &[u8]| { let _ = crrl::jq255e::PrivateKey::decode(b); none() });
    add!("jq255s::PublicKey::decode", 32, |b: &[u8]| { let _ = crrl::jq255s::PublicKey::decode(b); none() });
    add!("jq255s::PrivateKey::decode", 32, |b: &[u8]| { let _ = crrl::jq255s::PrivateKey::decode(b); none() });
    add!("gls254::PublicKey::decode", 32, |b: &[u8]| { let _ = crrl::gls254::PublicKey::decode(b); none() });
    add!("gls254::PrivateKey::decode", 32, |b: &[u8]| { let _ = crrl::gls254::PrivateKey::decode(b); none() });
    // ---- signature verification with the candidate as signature (fixed valid public key)
    add!("ed25519::verify_raw(sig)", 64, |b: &[u8]| { let k = crrl::ed25519::PrivateKey::from_seed(&[7u8; 32]).public_key; let _ = k.verify_raw(b, b"msg"); none() });
    add!("ed25519::verify_ctx(sig)", 64, |b: &[u8]| { let k = crrl::ed25519::PrivateKey::from_seed(&[7u8; 32]).public_key; let _ = k.verify_ctx(b, &[1u8; 255], b"msg"); none() });
    add!("ed25519::verify_ph(sig)", 64, |b: &[u8]| { let k = crrl::ed25519::PrivateKey::from_seed(&[7u8; 32]).public_key; let _ = k.verify_ph(b, b"", &[3u8; 64]); none() });
    add!("ed448::verify_raw(sig)", 114, |b: &[u8]| { let k = crrl::ed448::PrivateKey::from_seed(&[7u8; 57]).public_key; let _ = k.verify_raw(b, b"msg"); none() });
    add!("ed448::verify_ctx(sig)", 114, |b: &[u8]| { let k = crrl::ed448::PrivateKey::from_seed(&[7u8; 57]).public_key; let _ = k.verify_ctx(b, &[1u8; 255], b"msg"); none() });
    add!("p256::verify_hash(sig)", 64, |b: &[u8]| { let k = crrl::p256::PrivateKey::from_seed(&[7u8; 32]).to_public_key(); let _ = k.verify_hash(b, &[9u8; 32]); none() });
    add!("p256::verify_hash(hash)", 32, |b: &[u8]| { let k = crrl::p256::PrivateKey::from_seed(&[7u8; 32]); let s = k.sign_hash(&[1u8; 32], b""); let _ = k.to_public_key().verify_hash(&s, b); none() });
    add!("secp256k1::verify_hash(sig)", 64, |b: &[u8]| { let k = crrl::secp256k1::PrivateKey::from_seed(&[7u8; 32]).to_public_key(); let _ = k.verify_hash(b, &[9u8; 32]); none() });
    add!("secp256k1::verify_hash(hash)", 32, |b: &[u8]| { let k = crrl::secp256k1::PrivateKey::from_seed(&[7u8; 32]); let s = k.sign_hash(&[1u8; 32], b""); let _ = k.to_public_key().verify_hash(&s, b); none() });
    add!("p256::sign_hash(hash)", 32, |b: &[u8]| { let k = crrl::p256::PrivateKey::from_seed(&[7u8; 32]); let _ = k.sign_hash(b, b); none() });
    add!("p256::prepare_truncate(sig)", 64, |b: &[u8]| { let _ = crrl::p256::PrivateKey::prepare_truncate(b); none() });
    add!("jq255e::verify(sig)", 48, |b: &[u8]| { let k = crrl::jq255e::PrivateKey::from_scalar(&crrl::jq255e::Scalar::from_u32(77)).public_key; let _ = k.verify(b, "", b"msg"); none() });
    add!("jq255s::verify(sig)", 48, |b: &[u8]| { let k = crrl::jq255s::PrivateKey::from_scalar(&crrl::jq255s::Scalar::from_u32(77)).public_key; let _ = k.verify(b, "sha256", &[1u8; 32]); none() });
    add!("gls254::verify(sig)", 48, |b: &[u8]| { let k = crrl::gls254::PrivateKey::from_scalar(&crrl::gls254::Scalar::from_u32(77)).public_key; let _ = k.verify(b, "", b"msg"); none() });
    // ---- key exchange with an untrusted peer key
    add!("jq255e::ECDH(peer)", 32, |b: &[u8]| { let k = crrl::jq255e::PrivateKey::from_scalar(&crrl::jq255e::Scalar::from_u32(77)); st(k.ECDH(b).1) });
    add!("jq255s::ECDH(peer)", 32, |b: &[u8]| { let k = crrl::jq255s::PrivateKey::from_scalar(&crrl::jq255s::Scalar::from_u32(77)); st(k.ECDH(b).1) });
    add!("gls254::ECDH(peer)", 32, |b: &[u8]| { let k = crrl::gls254::PrivateKey::from_scalar(&crrl::gls254::Scalar::from_u32(77)); st(k.ECDH(b).1) });
    // ---- byte-to-group maps on arbitrary data
    add!("jq255e::hash_to_curve(data)", 32, |b: &[u8]| { let _ = crrl::jq255e::Point::hash_to_curve("", b); let _ = crrl::jq255e::Point::hash_to_curve("sha256", b); none() });
    add!("jq255s::hash_to_curve(data)", 32, |b: &[u8]| { let _ = crrl::jq255s::Point::hash_to_curve("", b); none() });
    add!("gls254::hash_to_curve(data)", 32, |b: &[u8]| { let _ = crrl::gls254::Point::hash_to_curve("blake2s", b); none() });
    // ---- LMS verification
    add!("lms::sha256_m32::verify(sig)", 1292, |b: &[u8]| {
        let mut r = Rng::new(5);
        let k = crrl::lms::LMS_SHA256_M32_H5_SHA256_N32_W8::PrivateKey::generate(&mut r);
        let _ = k.compute_public().verify(b, b"m"); none() });
    // ---- FROST wire formats (P-256 and Ed448 suites: big-endian / padded scalars)
    add!("frost::p256::SignerPrivateKeyShare::decode", 97, |b: &[u8]| { let _ = crrl::frost::p256::SignerPrivateKeyShare::decode(b); none() });
    add!("frost::p256::Commitment::decode_list", 196, |b: &[u8]| { let _ = crrl::frost::p256::Commitment::decode_list(b); none() });
    add!("frost::p256::VSSElement::decode_list", 99, |b: &[u8]| { let _ = crrl::frost::p256::VSSElement::decode_list(b); none() });
    add!("frost::ed448::Signature::decode", 114, |b: &[u8]| { let _ = crrl::frost::ed448::Signature::decode(b); none() });
    add!("frost::ed448::Commitment::decode_list", 342, |b: &[u8]| { let _ = crrl::frost::ed448::Commitment::decode_list(b); none() });
    add!("frost::ed25519::GroupPublicKey::verify_esig", 64, |b: &[u8]| {
        let mut r = Rng::new(5);
        let k = crrl::frost::ed25519::GroupPrivateKey::generate(&mut r).get_public_key();
        let _ = k.verify_esig(b, b"m"); none() });
    add!("frost::ristretto255::SignatureShare::decode", 64, |b: &[u8]| { let _ = crrl::frost::ristretto255::SignatureShare::decode(b); none() });
    v
}

/// FROST verification functions on malformed commitment lists (unsorted,
/// duplicated, too short, foreign identifiers) and empty VSS commitments.
fn frost_lists(tr: &mut Trace, rng: &mut Rng) {
    use crrl::frost::ed25519::*;
    let gsk = GroupPrivateKey::generate(rng);
    let gpk = gsk.get_public_key();
    let (shares, vss) = KeySplitter::trusted_split(rng, gsk, 2, 4);
    let (spks, _) = KeySplitter::derive_group_info(4, vss.clone());
    let nc: Vec<(Nonce, Commitment)> = shares.iter().map(|s| s.commit(rng)).collect();
    let c = |i: usize| nc[i].1;
    let lists: Vec<(&str, Vec<Commitment>)> = vec![
        ("sorted", vec![c(0), c(1)]), ("unsorted", vec![c(1), c(0)]), ("duplicate", vec![c(0), c(0)]),
        ("dup-tail", vec![c(0), c(1), c(1)]), ("single", vec![c(0)]), ("empty", vec![]),
        ("without-signer", vec![c(2), c(3)]), ("three-unsorted", vec![c(0), c(2), c(1)]),
    ];
    let msg = b"message".to_vec();
    let good = shares[0].sign(nc[0].0, nc[0].1, &msg, &[c(0), c(1)]).unwrap();
    let good1 = shares[1].sign(nc[1].0, nc[1].1, &msg, &[c(0), c(1)]).unwrap();
    for (name, l) in lists.iter() {
        let (l1, m1, sh, n0, c0) = (l.clone(), msg.clone(), shares[0], nc[0].0, nc[0].1);
        let e = Ev::new("total").s("fn", "frost::ed25519::sign(list)").s("class", name).n("len", l.len() as i64);
        match guarded_timeout(20, move || { let _ = sh.sign(n0, c0, &m1, &l1); }) { Ok(()) => tr.emit(e.s("res", "ok").s("st", "none")), Err(m) => tr.emit(e.s("res", &format!("panic:{}", m)).s("st", "none")) }
        let (l1, m1, pk) = (l.clone(), msg.clone(), spks[0]);
        let e = Ev::new("total").s("fn", "frost::ed25519::verify_signature_share(list)").s("class", name).n("len", l.len() as i64);
        match guarded_timeout(20, move || { let _ = pk.verify_signature_share(good, &l1, gpk, &m1); }) { Ok(()) => tr.emit(e.s("res", "ok").s("st", "none")), Err(m) => tr.emit(e.s("res", &format!("panic:{}", m)).s("st", "none")) }
        let (l1, m1, p1) = (l.clone(), msg.clone(), spks.clone());
        let co = Coordinator::new(2, gpk).unwrap();
        let e = Ev::new("total").s("fn", "frost::ed25519::assemble_signature(list)").s("class", name).n("len", l.len() as i64);
        match guarded_timeout(20, move || { let _ = co.assemble_signature(&[good, good1], &l1, &p1, &m1); }) { Ok(()) => tr.emit(e.s("res", "ok").s("st", "none")), Err(m) => tr.emit(e.s("res", &format!("panic:{}", m)).s("st", "none")) }
        let l1 = l.clone();
        let co = Coordinator::new(2, gpk).unwrap();
        let e = Ev::new("total").s("fn", "frost::ed25519::choose(list)").s("class", name).n("len", l.len() as i64);
        match guarded_timeout(20, move || { let _ = co.choose(&l1); }) { Ok(()) => tr.emit(e.s("res", "ok").s("st", "none")), Err(m) => tr.emit(e.s("res", &format!("panic:{}", m)).s("st", "none")) }
    }
    for (name, v) in [("empty", Vec::new()), ("one", vec![vss[0]]), ("full", vss.clone())] {
        let sh = shares[0];
        let n = v.len();
        let e = Ev::new("total").s("fn", "frost::ed25519::verify_split(vss)").s("class", name).n("len", n as i64);
        match guarded_timeout(20, move || { let _ = sh.verify_split(&v); }) { Ok(()) => tr.emit(e.s("res", "ok").s("st", "none")), Err(m) => tr.emit(e.s("res", &format!("panic:{}", m)).s("st", "none")) }
    }
}

/// truncated verification for every rm in its documented range, on valid and garbage signatures
fn trunc(tr: &mut Trace, rng: &mut Rng) {
    let sk = crrl::ed25519::PrivateKey::from_seed(&[9u8; 32]);
    let pk = sk.public_key;
    let good = sk.sign_raw(b"msg");
    for rm in 8usize..=32 {
        for (class, sig) in [("valid", good.to_vec()), ("random", rng.bytes(64)), ("zeros", vec![0u8; 64]), ("ones", vec![0xFFu8; 64])] {
            let e = Ev::new("total").s("fn", "ed25519::verify_trunc_raw").s("class", class).n("len", rm as i64);
            match guarded_timeout(60, move || { let _ = pk.verify_trunc_raw(&sig, rm, b"msg"); }) {
                Ok(()) => tr.emit(e.s("res", "ok").s("st", "none")), Err(m) => tr.emit(e.s("res", &format!("panic:{}", m)).s("st", "none")) }
        }
    }
    let sk = crrl::p256::PrivateKey::from_seed(&[9u8; 32]);
    let pk = sk.to_public_key();
    let good = sk.sign_hash(&[1u8; 32], b"");
    for rm in 8usize..=32 {
        for (class, sig) in [("valid", good.to_vec()), ("random", rng.bytes(64)), ("ones", vec![0xFFu8; 64])] {
            let e = Ev::new("total").s("fn", "p256::verify_trunc_hash").s("class", class).n("len", rm as i64);
            match guarded_timeout(60, move || { let _ = pk.verify_trunc_hash(&sig, rm, &[1u8; 32]); }) {
                Ok(()) => tr.emit(e.s("res", "ok").s("st", "none")), Err(m) => tr.emit(e.s("res", &format!("panic:{}", m)).s("st", "none")) }
        }
    }
}

pub fn run(tr: &mut Trace, rng: &mut Rng, part: usize, parts: usize, step: usize) {
    tr.emit(Ev::new("init").s("dom", "total"));
    let fs = functions();
    for (k, (name, nominal, f)) in fs.into_iter().enumerate() {
        if k % parts != part { continue; }
        let f = std::sync::Arc::new(f);
        let maxlen = if nominal > 400 { nominal + 2 } else { 2 * nominal + 1 };
        let mut len = 0;
        while len <= maxlen {
            let mut classes: Vec<(&str, Vec<u8>)> = vec![("zeros", vec![0u8; len]), ("ones", vec![0xFFu8; len]), ("random", rng.bytes(len))];
            if len > 0 { let mut t = vec![0u8; len]; t[0] = 2; classes.push(("02..", t.clone())); t[0] = 4; classes.push(("04..", t)); }
            for (class, data) in classes {
                let g = f.clone();
                let e = Ev::new("total").s("fn", name).s("class", class).n("len", len as i64);
                match guarded_timeout(30, move || g(&data)) {
                    Ok(s) => tr.emit(e.s("res", "ok").s("st", &s)),
                    Err(m) => tr.emit(e.s("res", &format!("panic:{}", m)).s("st", "none")),
                }
            }
            // every length near the nominal one, a coarser grid elsewhere for the long formats
            len += if nominal > 400 && (len + 3 < nominal || len > nominal + 1) { step.max(1) * 37 } else { 1 };
        }
    }
    if part == 0 { frost_lists(tr, rng); trunc(tr, rng); }
}
