// Binary-field domain: register-machine programs over GFb127 and GFb254.

use crate::out::{guarded, Ev, Trace};
use crate::rng::Rng;
use crrl::field::{GFb127, GFb254};

const NREG: usize = 12;
const CTL: [u32; 2] = [0, 0xFFFFFFFF];

#[derive(Clone, Copy)]
enum V { S(GFb127), B(GFb254) }

fn u64s(b: &[u8]) -> Vec<u64> {
    b.chunks(8).map(|c| { let mut t = [0u8; 8]; t.copy_from_slice(c); u64::from_le_bytes(t) }).collect()
}
fn enc(v: V) -> Vec<u8> { match v { V::S(x) => x.encode().to_vec(), V::B(x) => x.encode().to_vec() } }

struct Mach<'a> { small: bool, regs: [V; NREG], tr: &'a mut Trace }

impl<'a> Mach<'a> {
    fn new(tr: &'a mut Trace, small: bool) -> Self {
        tr.emit(Ev::new("init").s("ty", if small { "GFb127" } else { "GFb254" }));
        let z = if small { V::S(GFb127::ZERO) } else { V::B(GFb254::ZERO) };
        Mach { small, regs: [z; NREG], tr }
    }
    fn put(&mut self, dst: usize, e: Ev, r: Result<V, String>) -> bool {
        let e = e.n("dst", dst as i64);
        match r {
            Ok(v) => match guarded(move || enc(v)) {
                Ok(o) => { self.tr.emit(e.b("out", &o)); self.regs[dst] = v; true }
                Err(m) => { self.tr.emit(e.s("panic", &m)); false }
            },
            Err(m) => { self.tr.emit(e.s("panic", &m)); false }
        }
    }
    fn raw(&mut self, dst: usize, b: &[u8]) -> bool {
        let w = u64s(b);
        let small = self.small;
        let r = guarded(move || if small { V::S(GFb127::w64le(w[0], w[1])) } else { V::B(GFb254::w64le(w[0], w[1], w[2], w[3])) });
        self.put(dst, Ev::new("raw").b("b", b), r)
    }
    fn bin(&mut self, op: &str, dst: usize, a: usize, b: usize, v: u32) -> bool {
        let (x, y) = (self.regs[a], self.regs[b]);
        let o = op.to_string();
        let r = guarded(move || match (x, y) {
            (V::S(x), V::S(y)) => V::S(match (o.as_str(), v & 1) { ("add", 0) => x + y, ("add", _) => { let mut r = x; r += &y; r }
                ("sub", _) => x - y, ("mul", 0) => x * y, ("mul", _) => { let mut r = x; r *= y; r } _ => x / y }),
            (V::B(x), V::B(y)) => V::B(match (o.as_str(), v & 1) { ("add", 0) => x + y, ("add", _) => { let mut r = x; r += &y; r }
                ("sub", _) => x - y, ("mul", 0) => x * y, ("mul", _) => { let mut r = x; r *= y; r } _ => x / y }),
            _ => unreachable!(),
        });
        self.put(dst, Ev::new(op).n("a", a as i64).n("b", b as i64), r)
    }
    fn un(&mut self, op: &str, dst: usize, a: usize, n: u32) -> bool {
        let x = self.regs[a];
        let o = op.to_string();
        let r = guarded(move || -> Option<V> { Some(match x {
            V::S(x) => V::S(match o.as_str() { "neg" => -x, "square" => x.square(), "xsquare" => x.xsquare(n), "invert" => x.invert(),
                "sqrt" => x.sqrt(), "mul_sb" => x.mul_sb(), "mul_b" => x.mul_b(), "div_z" => x.div_z(), "div_z2" => x.div_z2(),
                "halftrace" => x.halftrace(), _ => return None }),
            V::B(x) => V::B(match o.as_str() { "neg" => -x, "square" => x.square(), "xsquare" => x.xsquare(n), "invert" => x.invert(),
                "sqrt" => x.sqrt(), "mul_sb" => x.mul_sb(), "mul_b" => x.mul_b(), "div_z" => x.div_z(), "div_z2" => x.div_z2(),
                "mul_u" => x.mul_u(), "mul_u1" => x.mul_u1(), "qsolve" => x.qsolve(), _ => return None }),
        }) });
        let e = Ev::new(op).n("a", a as i64);
        let e = if op == "xsquare" { e.n("n", n as i64) } else { e };
        match r { Ok(None) => true, Ok(Some(v)) => self.put(dst, e, Ok(v)), Err(m) => self.put(dst, e, Err(m)) }
    }
    /// GFb127 only: add a one-bit value at bit index k (documented domain 0..=126); only the low bit of val counts
    fn xor_bit(&mut self, dst: usize, a: usize, k: usize, val: u32) -> bool {
        let x = match self.regs[a] { V::S(x) => x, _ => return true };
        let r = guarded(move || { let mut y = x; y.xor_bit(k, val); V::S(y) });
        self.put(dst, Ev::new("xor_bit").n("a", a as i64).n("k", k as i64).b("val", &val.to_le_bytes()), r)
    }
    /// GFb254 only: the two GF(2^127) components, construction from components, product by a GF(2^127) element
    fn components(&mut self, a: usize) {
        let x = match self.regs[a] { V::B(x) => x, _ => return };
        let e = Ev::new("to_components").n("a", a as i64);
        match guarded(move || { let (c0, c1) = x.to_components(); (c0.encode().to_vec(), c1.encode().to_vec()) }) {
            Ok((c0, c1)) => self.tr.emit(e.b("c0", &c0).b("c1", &c1)),
            Err(m) => self.tr.emit(e.s("panic", &m)),
        }
    }
    fn from_b127(&mut self, dst: usize, c0: &[u8], c1: &[u8]) -> bool {
        if self.small { return true; }
        let (b0, b1) = (c0.to_vec(), c1.to_vec());
        let r = guarded(move || V::B(GFb254::from_b127(GFb127::decode(&b0).unwrap(), GFb127::decode(&b1).unwrap())));
        self.put(dst, Ev::new("from_b127").b("c0", c0).b("c1", c1), r)
    }
    fn mul_b127(&mut self, dst: usize, a: usize, c: &[u8], v: u32) -> bool {
        let x = match self.regs[a] { V::B(x) => x, _ => return true };
        let b = c.to_vec();
        let r = guarded(move || { let s = GFb127::decode(&b).unwrap(); V::B(if v & 1 == 0 { x.mul_b127(&s) } else { let mut y = x; y.set_mul_b127(&s); y }) });
        self.put(dst, Ev::new("mul_b127").n("a", a as i64).b("c", c), r)
    }
    /// GFb127 only: write the low bit of val at bit index k
    fn set_bit(&mut self, dst: usize, a: usize, k: usize, val: u32) -> bool {
        let x = match self.regs[a] { V::S(x) => x, _ => return true };
        let r = guarded(move || { let mut y = x; y.set_bit(k, val); V::S(y) });
        self.put(dst, Ev::new("set_bit").n("a", a as i64).n("k", k as i64).b("val", &val.to_le_bytes()), r)
    }
    fn observe(&mut self, op: &str, a: usize, b: usize, k: usize) {
        let (x, y) = (self.regs[a], self.regs[b]);
        let e = Ev::new(op).n("a", a as i64);
        let o = op.to_string();
        let r = guarded(move || -> Option<(String, i64, Vec<u8>)> { Some(match (o.as_str(), x, y) {
            ("equals", V::S(x), V::S(y)) => ("st".into(), x.equals(y) as i64, vec![]),
            ("equals", V::B(x), V::B(y)) => ("st".into(), x.equals(y) as i64, vec![]),
            ("iszero", V::S(x), _) => ("st".into(), x.iszero() as i64, vec![]),
            ("iszero", V::B(x), _) => ("st".into(), x.iszero() as i64, vec![]),
            ("trace", V::S(x), _) => ("res".into(), x.trace() as i64, vec![]),
            ("trace", V::B(x), _) => ("res".into(), x.trace() as i64, vec![]),
            ("get_bit", V::S(x), _) => ("res".into(), x.get_bit(k) as i64, vec![]),
            ("mul_selfphi", V::B(x), _) => ("out".into(), 0, x.mul_selfphi().encode().to_vec()),
            ("encode", v, _) => ("out".into(), 0, enc(v)),
            _ => return None,
        }) });
        match r {
            Ok(None) => {}
            Ok(Some((f, n, bytes))) => {
                let e = if op == "equals" { e.n("b", b as i64) } else if op == "get_bit" { e.n("k", k as i64) } else { e };
                let e = match f.as_str() { "st" => e.st("st", n as u32), "res" => e.n("res", n), _ => e.b("out", &bytes) };
                self.tr.emit(e);
            }
            Err(m) => self.tr.emit(e.s("panic", &m)),
        }
    }
    fn decode(&mut self, kind: &str, dst: usize, b: &[u8]) -> bool {
        let bb = b.to_vec();
        let small = self.small;
        let e = Ev::new(kind).b("in", b);
        if kind == "decode_ct" {
            match guarded(move || if small { let (x, s) = GFb127::decode_ct(&bb); (V::S(x), s) } else { let (x, s) = GFb254::decode_ct(&bb); (V::B(x), s) }) {
                Ok((v, st)) => self.put(dst, e.st("st", st), Ok(v)),
                Err(m) => self.put(dst, e, Err(m)),
            }
        } else {
            match guarded(move || if small { GFb127::decode(&bb).map(V::S) } else { GFb254::decode(&bb).map(V::B) }) {
                Ok(Some(v)) => self.put(dst, e.t("some", true), Ok(v)),
                Ok(None) => { self.tr.emit(e.t("some", false).n("dst", dst as i64)); true }
                Err(m) => self.put(dst, e, Err(m)),
            }
        }
    }
    fn set_cond(&mut self, dst: usize, a: usize, ctl: u32) -> bool {
        let (d, x) = (self.regs[dst], self.regs[a]);
        let r = guarded(move || match (d, x) { (V::S(mut d), V::S(x)) => { d.set_cond(&x, ctl); V::S(d) } (V::B(mut d), V::B(x)) => { d.set_cond(&x, ctl); V::B(d) } _ => unreachable!() });
        self.put(dst, Ev::new("set_cond").n("a", a as i64).st("ctl", ctl), r)
    }
    fn select(&mut self, dst: usize, a0: usize, a1: usize, ctl: u32) -> bool {
        let (x, y) = (self.regs[a0], self.regs[a1]);
        let r = guarded(move || match (x, y) { (V::S(x), V::S(y)) => V::S(GFb127::select(&x, &y, ctl)), (V::B(x), V::B(y)) => V::B(GFb254::select(&x, &y, ctl)), _ => unreachable!() });
        self.put(dst, Ev::new("select").n("a0", a0 as i64).n("a1", a1 as i64).st("ctl", ctl), r)
    }
    fn cswap(&mut self, a: usize, b: usize, ctl: u32) -> bool {
        if a == b { return true; }
        let (x, y) = (self.regs[a], self.regs[b]);
        let e = Ev::new("cswap").n("a", a as i64).n("b", b as i64).st("ctl", ctl);
        match guarded(move || match (x, y) { (V::S(mut x), V::S(mut y)) => { GFb127::cswap(&mut x, &mut y, ctl); (V::S(x), V::S(y)) }
                                             (V::B(mut x), V::B(mut y)) => { GFb254::cswap(&mut x, &mut y, ctl); (V::B(x), V::B(y)) } _ => unreachable!() }) {
            Ok((x, y)) => { self.regs[a] = x; self.regs[b] = y; self.tr.emit(e.b("outa", &enc(x)).b("outb", &enc(y))); true }
            Err(m) => { self.tr.emit(e.s("panic", &m)); false }
        }
    }
    // constant-time lookups in a table made of the registers (GFb254 only)
    fn lookup(&mut self, npairs: usize, j: u32, nocheck: bool) {
        if self.small { return; }
        let rs: Vec<i64> = (0..2 * npairs).map(|i| (i % NREG) as i64).collect();
        let tab: Vec<GFb254> = rs.iter().map(|&i| match self.regs[i as usize] { V::B(x) => x, _ => GFb254::ZERO }).collect();
        let e = Ev::new("lookup").nn("rs", &rs).b("j", &crate::out::trim(&j.to_le_bytes())).t("checked", !nocheck);
        let r = guarded(move || -> [GFb254; 2] { match (npairs, nocheck) {
            (16, _) => GFb254::lookup16_x2(<&[GFb254; 32]>::try_from(&tab[..]).unwrap(), j),
            (8, _) => GFb254::lookup8_x2(<&[GFb254; 16]>::try_from(&tab[..]).unwrap(), j),
            (_, false) => GFb254::lookup4_x2(<&[GFb254; 8]>::try_from(&tab[..]).unwrap(), j),
            _ => GFb254::lookup4_x2_nocheck(<&[GFb254; 8]>::try_from(&tab[..]).unwrap(), j),
        } });
        match r { Ok(o) => self.tr.emit(e.b("out0", &o[0].encode()).b("out1", &o[1].encode())), Err(m) => self.tr.emit(e.s("panic", &m)) }
    }
}

fn boundary(small: bool) -> Vec<Vec<u8>> {
    let n = if small { 16 } else { 32 };
    let mut v: Vec<Vec<u8>> = Vec::new();
    let mut push = |f: &dyn Fn(&mut Vec<u8>)| { let mut b = vec![0u8; n]; f(&mut b); v.push(b); };
    push(&|_| {});
    push(&|b| b[0] = 1);
    push(&|b| b[0] = 2);
    push(&|b| for x in b.iter_mut() { *x = 0xFF });
    push(&|b| { for x in b.iter_mut() { *x = 0xFF } b[15] = 0x7F; if b.len() > 16 { b[31] = 0x7F; } });
    push(&|b| b[15] = 0x80);                       // z^127: folds to z^63 + 1
    push(&|b| { b[15] = 0x80; b[7] = 0x80; b[0] = 1 });  // z^127 + z^63 + 1 = 0
    push(&|b| b[7] = 0x80);                        // z^63
    push(&|b| b[8] = 1);                           // z^64
    push(&|b| b[15] = 0x40);                       // z^126
    if !small {
        push(&|b| b[16] = 1);                      // u
        push(&|b| { b[0] = 1; b[16] = 1 });        // 1 + u
        push(&|b| b[31] = 0x80);
        push(&|b| { b[31] = 0x80; b[23] = 0x80; b[16] = 1 });
    }
    v
}

pub fn run(tr: &mut Trace, rng: &mut Rng, scripts: usize, len: usize) {
    for small in [true, false] {
        let n = if small { 16 } else { 32 };
        let bv = boundary(small);
        // every boundary pair through the binary operations, every boundary value through the unary ones
        let mut m = Mach::new(tr, small);
        for x in bv.iter() { for y in bv.iter() {
            let ok = m.raw(0, x) && m.raw(1, y) && m.bin("add", 2, 0, 1, 0) && m.bin("mul", 3, 0, 1, 1) && m.bin("div", 4, 0, 1, 0)
                && m.bin("mul", 5, 4, 1, 0) && m.bin("sub", 6, 3, 2, 0);
            if ok { m.observe("equals", 0, 1, 0); m.observe("equals", 5, 0, 0); } else { m = Mach::new(tr, small); }
        } }
        for x in bv.iter() {
            if !m.raw(0, x) { m = Mach::new(tr, small); continue; }
            let mut ok = true;
            for op in ["neg", "square", "invert", "sqrt", "mul_sb", "mul_b", "div_z", "div_z2", "mul_u", "mul_u1", "halftrace", "qsolve"] { ok = ok && m.un(op, 1, 0, 0); }
            for k in [0u32, 1, 2, 7, 63, 64, 127, 254] { ok = ok && m.un("xsquare", 2, 0, k); }
            if ok { for op in ["trace", "iszero", "encode", "mul_selfphi"] { m.observe(op, 0, 0, 0); }
                    for k in [0usize, 1, 63, 64, 126] { m.observe("get_bit", 0, 0, k); } }
            else { m = Mach::new(tr, small); }
        }
        // decoders: every length, boundary contents
        let mut cands: Vec<Vec<u8>> = bv.clone();
        for l in 0..=(n + 2) { cands.push(vec![0u8; l]); cands.push(vec![0xFFu8; l]); cands.push(rng.bytes(l)); }
        for _ in 0..20 { let mut b = rng.bytes(n); b[15] &= 0x7F; if n > 16 && rng.chance(1, 2) { b[31] &= 0x7F; } cands.push(b); }
        for c in cands.iter() {
            if !(m.decode("decode_ct", 0, c) && m.decode("decode", 1, c)) { m = Mach::new(tr, small); }
        }
        // random programs
        for _ in 0..scripts {
            let mut m = Mach::new(tr, small);
            let mut ok = true;
            for r in 0..NREG { let b = if rng.chance(1, 3) { rng.pick(&bv).clone() } else { rng.bytes(n) }; ok = ok && m.raw(r, &b); }
            let mut i = 0;
            while ok && i < len {
                let (d, a, b) = (rng.below(NREG), rng.below(NREG), rng.below(NREG));
                ok = match rng.below(25) {
                    0 | 1 => m.bin("add", d, a, b, rng.u64() as u32), 2 | 3 | 4 => m.bin("mul", d, a, b, rng.u64() as u32),
                    5 => m.bin("div", d, a, b, 0), 6 => m.bin("sub", d, a, b, 0),
                    7 => m.un(*rng.pick(&["square", "invert", "sqrt", "neg"]), d, a, 0),
                    8 => m.un(*rng.pick(&["mul_sb", "mul_b", "div_z", "div_z2", "mul_u", "mul_u1"]), d, a, 0),
                    9 => m.un("xsquare", d, a, *rng.pick(&[0u32, 1, 3, 10, 126, 127])),
                    10 => m.un(*rng.pick(&["halftrace", "qsolve"]), d, a, 0),
                    11 => { m.observe(*rng.pick(&["trace", "iszero", "encode", "mul_selfphi"]), a, b, 0); true }
                    12 => { m.observe("equals", a, b, 0); true }
                    13 => { m.observe("get_bit", a, b, rng.below(127));
                            let rk = rng.below(127);
                            let k = *rng.pick(&[0usize, 1, 5, 31, 32, 62, 63, 64, 65, 100, 125, 126, rk]);
                            let val = *rng.pick(&[0u32, 1, 2, 3, 0xFFFFFFFE, 0xFFFFFFFF]);
                            if rk % 2 == 0 { m.xor_bit(d, a, k, val) } else { m.set_bit(d, a, k, val) } }
                    14 | 15 => m.set_cond(d, a, *rng.pick(&CTL)),
                    16 | 17 => m.select(d, a, b, *rng.pick(&CTL)),
                    18 | 19 => m.cswap(a, b, *rng.pick(&CTL)),
                    20 => { let np = *rng.pick(&[16usize, 8, 4]); m.lookup(np, *rng.pick(&[0u32, 1, (np - 1) as u32, np as u32, (np + 1) as u32, 255, 1 << 31, u32::MAX]), false); true }
                    21 => { m.lookup(4, rng.below(4) as u32, true); true }
                    22 => { let np = *rng.pick(&[16usize, 8, 4]); m.lookup(np, rng.below(np) as u32, false); true }
                    23 if !small => {
                        let mk = |rng: &mut Rng| { let mut c = match rng.below(4) { 0 => vec![0u8; 16], 1 => vec![0xFFu8; 16], 2 => { let mut t = vec![0u8; 16]; t[0] = 1; t }, _ => rng.bytes(16) }; c[15] &= 0x7F; c };
                        let (c0, c1) = (mk(rng), mk(rng));
                        m.components(a);
                        m.from_b127(d, &c0, &c1) && m.mul_b127(b, a, &c1, rng.u64() as u32)
                    }
                    _ => m.raw(d, &rng.bytes(n)),
                };
                i += 1;
            }
        }
    }
}
