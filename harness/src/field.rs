// Field domain: register-machine programs over every prime-field / scalar
// type crrl exports, recorded as one event per public call.
//
// The harness never judges a result: it only records what the code under test
// returned.  TLC (spec/TraceField.tla) decides.

use crate::out::{guarded, guarded_timeout, trim, Ev, Trace};
use crate::rng::Rng;
use num_bigint::BigUint;

pub trait FieldApi: Copy + Send + 'static {
    const NAME: &'static str;
    const ENC_LEN: usize;
    const OUT_LEN: usize = Self::ENC_LEN;
    const RAW_LEN: usize;
    fn modulus() -> BigUint;
    fn cst(name: &str) -> Self;
    fn raw(b: &[u8], variant: u32) -> Self;
    fn from_int(kind: &str, neg: bool, mag: u128) -> Self;
    fn add(a: Self, b: Self, v: u32) -> Self;
    fn sub(a: Self, b: Self, v: u32) -> Self;
    fn mul(a: Self, b: Self, v: u32) -> Self;
    fn div(a: Self, b: Self, v: u32) -> Self;
    fn neg(a: Self, v: u32) -> Self;
    fn square(a: Self, v: u32) -> Self;
    fn xsquare(a: Self, n: u32) -> Self;
    fn half(a: Self) -> Self;
    fn mulk(a: Self, k: u32) -> Option<Self>; // k in {2,3,4,8,16,32}
    fn mul_small(_a: Self, _k: u32) -> Option<Self> {
        None
    }
    fn invert(_a: Self) -> Option<Self> {
        None
    }
    fn batch_invert(xx: &mut [Self]);
    fn legendre(a: Self) -> i32;
    fn sqrt(_a: Self) -> Option<(Self, u32)> {
        None
    }
    fn sqrt_ext(_a: Self) -> Option<(Self, u32)> {
        None
    }
    fn split(_a: Self) -> Option<(Vec<u8>, Vec<u8>)> {
        None
    }
    fn equals(a: Self, b: Self) -> u32;
    fn iszero(a: Self) -> u32;
    fn encode(a: Self) -> Vec<u8>;
    fn encode32(_a: Self) -> Option<Vec<u8>> {
        None
    }
    fn decode_ct(b: &[u8], v: u32) -> (Self, u32);
    fn decode32(_b: &[u8]) -> Option<(Self, u32)> {
        None
    }
    fn decode(b: &[u8]) -> Option<Self>;
    fn decode_reduce(b: &[u8], v: u32) -> Self;
    fn set_cond(d: &mut Self, a: &Self, ctl: u32);
    fn select(a0: &Self, a1: &Self, ctl: u32) -> Self;
    fn cswap(a: &mut Self, b: &mut Self, ctl: u32);
    /// constant-time lookup of `width` consecutive entries at index j in a table of 16*width elements
    fn lookup16(_tab: &[Self], _width: usize, _j: u32) -> Option<Vec<Self>> { None }
    /// products of two not-reduced values (GF255): form f applied to (a, b, c) gives a pair (or a single value) of
    /// GF255NotReduced; the selected one is multiplied by the selected one of form g applied to (d, e, f2), or squared
    fn nrmul(_f: u32, _x: [Self; 3], _g: u32, _y: [Self; 3], _v: u32) -> Option<Self> { None }
}

fn limbs4(b: &[u8]) -> [u64; 4] {
    let mut x = [0u64; 4];
    for i in 0..4 {
        let mut t = [0u8; 8];
        t.copy_from_slice(&b[8 * i..8 * i + 8]);
        x[i] = u64::from_le_bytes(t);
    }
    x
}

fn limbs7(b: &[u8]) -> [u64; 7] {
    let mut x = [0u64; 7];
    for i in 0..7 {
        let mut t = [0u8; 8];
        t.copy_from_slice(&b[8 * i..8 * i + 8]);
        x[i] = u64::from_le_bytes(t);
    }
    x
}

fn rev7(x: [u64; 7]) -> [u64; 7] {
    [x[6], x[5], x[4], x[3], x[2], x[1], x[0]]
}

// signed little-endian two's complement bytes -> (neg, magnitude bytes)
pub fn signed_le(b: &[u8]) -> (bool, Vec<u8>) {
    let neg = b[b.len() - 1] & 0x80 != 0;
    if !neg {
        return (false, trim(b));
    }
    let mut m = vec![0u8; b.len()];
    let mut c = 1u16;
    for i in 0..b.len() {
        let t = (!b[i]) as u16 + c;
        m[i] = t as u8;
        c = t >> 8;
    }
    (true, trim(&m))
}

macro_rules! binop {
    ($name:ident, $op:tt, $opa:tt) => {
        fn $name(a: Self, b: Self, v: u32) -> Self {
            match v % 6 {
                0 => a $op b,
                1 => &a $op &b,
                2 => a $op &b,
                3 => &a $op b,
                4 => { let mut r = a; r $opa &b; r }
                _ => { let mut r = a; r $opa b; r }
            }
        }
    };
}

macro_rules! common_ops {
    ($t:ty) => {
        binop!(add, +, +=);
        binop!(sub, -, -=);
        binop!(mul, *, *=);
        binop!(div, /, /=);
        fn neg(a: Self, v: u32) -> Self {
            match v % 3 {
                0 => -a,
                1 => -&a,
                _ => { let mut r = a; r.set_neg(); r }
            }
        }
        fn square(a: Self, v: u32) -> Self {
            match v & 1 {
                0 => a.square(),
                _ => { let mut r = a; r.set_square(); r }
            }
        }
        fn xsquare(a: Self, n: u32) -> Self { a.xsquare(n) }
        fn half(a: Self) -> Self { a.half() }
        fn batch_invert(xx: &mut [Self]) { <$t>::batch_invert(xx) }
        fn legendre(a: Self) -> i32 { a.legendre() }
        fn equals(a: Self, b: Self) -> u32 { a.equals(b) }
        fn iszero(a: Self) -> u32 { a.iszero() }
        fn decode(b: &[u8]) -> Option<Self> { <$t>::decode(b) }
        fn decode_ct(b: &[u8], v: u32) -> (Self, u32) {
            match v & 1 {
                0 => <$t>::decode_ct(b),
                _ => { let mut r = <$t>::ONE; let s = r.set_decode_ct(b); (r, s) }
            }
        }
        fn decode_reduce(b: &[u8], v: u32) -> Self {
            match v & 1 {
                0 => <$t>::decode_reduce(b),
                _ => { let mut r = <$t>::ONE; r.set_decode_reduce(b); r }
            }
        }
        fn set_cond(d: &mut Self, a: &Self, ctl: u32) { d.set_cond(a, ctl) }
        fn select(a0: &Self, a1: &Self, ctl: u32) -> Self { <$t>::select(a0, a1, ctl) }
        fn cswap(a: &mut Self, b: &mut Self, ctl: u32) { <$t>::cswap(a, b, ctl) }
        fn cst(name: &str) -> Self {
            match name {
                "ZERO" => <$t>::ZERO,
                "ONE" => <$t>::ONE,
                _ => <$t>::MINUS_ONE,
            }
        }
        fn from_int(kind: &str, neg: bool, mag: u128) -> Self {
            match kind {
                "i32" => <$t>::from_i32(if neg { (mag as i64).wrapping_neg() as i32 } else { mag as i32 }),
                "u32" => <$t>::from_u32(mag as u32),
                "i64" => <$t>::from_i64(if neg { (mag as i128).wrapping_neg() as i64 } else { mag as i64 }),
                "u64" => <$t>::from_u64(mag as u64),
                "i128" => <$t>::from_i128(if neg { (mag as i128).wrapping_neg() } else { mag as i128 }),
                _ => <$t>::from_u128(mag),
            }
        }
    };
}

macro_rules! raw4 {
    ($t:ty) => {
        fn raw(b: &[u8], variant: u32) -> Self {
            let x = limbs4(b);
            match variant & 3 {
                0 => <$t>::from_w64le(x[0], x[1], x[2], x[3]),
                1 => <$t>::w64le(x[0], x[1], x[2], x[3]),
                2 => <$t>::from_w64be(x[3], x[2], x[1], x[0]),
                _ => <$t>::w64be(x[3], x[2], x[1], x[0]),
            }
        }
    };
}

macro_rules! mulk_all {
    () => {
        fn mulk(a: Self, k: u32) -> Option<Self> {
            Some(match k {
                2 => a.mul2(),
                3 => a.mul3(),
                4 => a.mul4(),
                8 => a.mul8(),
                16 => a.mul16(),
                32 => a.mul32(),
                _ => return None,
            })
        }
    };
}

macro_rules! mulk_no3 {
    () => {
        fn mulk(a: Self, k: u32) -> Option<Self> {
            Some(match k {
                2 => a.mul2(),
                4 => a.mul4(),
                8 => a.mul8(),
                16 => a.mul16(),
                32 => a.mul32(),
                _ => return None,
            })
        }
    };
}

macro_rules! split_i128 {
    () => {
        fn split(a: Self) -> Option<(Vec<u8>, Vec<u8>)> {
            let (c0, c1) = a.split_vartime();
            Some((c0.to_le_bytes().to_vec(), c1.to_le_bytes().to_vec()))
        }
    };
}

macro_rules! sqrt_both {
    () => {
        fn sqrt(a: Self) -> Option<(Self, u32)> { Some(a.sqrt()) }
        fn sqrt_ext(a: Self) -> Option<(Self, u32)> { Some(a.sqrt_ext()) }
    };
}

macro_rules! enc32 {
    ($t:ty) => {
        fn encode(a: Self) -> Vec<u8> { a.encode().to_vec() }
        fn encode32(a: Self) -> Option<Vec<u8>> { Some(a.encode32().to_vec()) }
        fn decode32(b: &[u8]) -> Option<(Self, u32)> { Some(<$t>::decode32(b)) }
    };
}

macro_rules! gf255_impl {
    ($t:ty, $name:expr, $mq:expr) => {
        impl FieldApi for $t {
            const NAME: &'static str = $name;
            const ENC_LEN: usize = 32;
            const RAW_LEN: usize = 32;
            fn modulus() -> BigUint { (BigUint::from(1u32) << 255) - BigUint::from($mq as u32) }
            common_ops!($t);
            raw4!($t);
            mulk_no3!();
            fn mul_small(a: Self, k: u32) -> Option<Self> { Some(a.mul_small(k)) }
            sqrt_both!();
            split_i128!();
            enc32!($t);
            fn nrmul(f: u32, x: [Self; 3], g: u32, y: [Self; 3], v: u32) -> Option<Self> {
                let nr = |f: u32, x: [Self; 3]| match f {
                    0 => x[0].add_noreduce(&x[1]),
                    1 => x[0].sub_noreduce(&x[1]),
                    2 => x[0].mul2_noreduce(),
                    3 => x[0].mul2add_mul2sub_noreduce(&x[1]).0,
                    4 => x[0].mul2add_mul2sub_noreduce(&x[1]).1,
                    5 => x[0].add_addsub_noreduce(&x[1], &x[2]).0,
                    6 => x[0].add_addsub_noreduce(&x[1], &x[2]).1,
                    7 => x[0].sub_subadd2_noreduce(&x[1], &x[2]).0,
                    _ => x[0].sub_subadd2_noreduce(&x[1], &x[2]).1,
                };
                let a = nr(f, x);
                Some(match v % 5 {
                    0 => a * nr(g, y),
                    1 => y[0] * a,
                    2 => a * y[0],
                    3 => a.square(),
                    _ => { let mut t = y[0]; t *= a; t }
                })
            }
            fn lookup16(tab: &[Self], width: usize, j: u32) -> Option<Vec<Self>> {
                Some(if width == 3 { <$t>::lookup16_x3(<&[$t; 48]>::try_from(tab).unwrap(), j).to_vec() }
                     else { <$t>::lookup16_x4(<&[$t; 64]>::try_from(tab).unwrap(), j).to_vec() })
            }
        }
    };
}

gf255_impl!(crrl::field::GF25519, "GF25519", 19);
gf255_impl!(crrl::field::GF255e, "GF255e", 18651);
gf255_impl!(crrl::field::GF255s, "GF255s", 3957);

fn hexnum(s: &str) -> BigUint {
    let t: String = s.chars().filter(|c| *c != '_').collect();
    BigUint::parse_bytes(t.as_bytes(), 16).unwrap()
}

#[cfg(not(feature = "w32"))]
impl FieldApi for crrl::field::GFsecp256k1 {
    const NAME: &'static str = "GFsecp256k1";
    const ENC_LEN: usize = 32;
    const RAW_LEN: usize = 32;
    fn modulus() -> BigUint {
        hexnum("fffffffffffffffffffffffffffffffffffffffffffffffffffffffefffffc2f")
    }
    common_ops!(crrl::field::GFsecp256k1);
    raw4!(crrl::field::GFsecp256k1);
    fn mulk(a: Self, k: u32) -> Option<Self> {
        Some(match k {
            2 => a.mul2(),
            3 => a.mul3(),
            4 => a.mul4(),
            8 => a.mul8(),
            16 => a.mul16(),
            32 => a.mul32(),
            21 => a.mul21(),
            _ => return None,
        })
    }
    // mul_u16: small multiplier limited to 16 bits on this type
    fn mul_small(a: Self, k: u32) -> Option<Self> {
        if k > 0xFFFF { None } else { Some(a.mul_u16(k as u16)) }
    }
    fn sqrt(a: Self) -> Option<(Self, u32)> { Some(a.sqrt()) }
    enc32!(crrl::field::GFsecp256k1);
}

impl FieldApi for crrl::field::GF448 {
    const NAME: &'static str = "GF448";
    const ENC_LEN: usize = 56;
    const RAW_LEN: usize = 56;
    fn modulus() -> BigUint {
        (BigUint::from(1u32) << 448) - (BigUint::from(1u32) << 224) - BigUint::from(1u32)
    }
    common_ops!(crrl::field::GF448);
    fn raw(b: &[u8], variant: u32) -> Self {
        let x = limbs7(b);
        match variant & 3 {
            0 => crrl::field::GF448::from_w64le(x),
            1 => crrl::field::GF448::w64le(x),
            2 => crrl::field::GF448::from_w64be(rev7(x)),
            _ => crrl::field::GF448::w64be(rev7(x)),
        }
    }
    mulk_no3!();
    fn mul_small(a: Self, k: u32) -> Option<Self> { Some(a.mul_small(k)) }
    sqrt_both!();
    fn encode(a: Self) -> Vec<u8> { a.encode().to_vec() }
}

macro_rules! modint_impl {
    ($t:ty, $name:expr, $modhex:expr) => {
        impl FieldApi for $t {
            const NAME: &'static str = $name;
            const ENC_LEN: usize = <$t>::ENC_LEN;
            const OUT_LEN: usize = 32;
            const RAW_LEN: usize = 32;
            fn modulus() -> BigUint { hexnum($modhex) }
            common_ops!($t);
            raw4!($t);
            mulk_all!();
            fn sqrt(a: Self) -> Option<(Self, u32)> { Some(a.sqrt()) }
            split_i128!();
            // the generic type only offers the 32-byte encoder; the per-curve
            // `encode()` wrappers are the same function
            fn encode(a: Self) -> Vec<u8> { a.encode32().to_vec() }
            fn encode32(a: Self) -> Option<Vec<u8>> { Some(a.encode32().to_vec()) }
            fn decode32(b: &[u8]) -> Option<(Self, u32)> { Some(<$t>::decode32(b)) }
        }
    };
}

// under the 32-bit backend GFsecp256k1 is an instance of the generic ModInt256
#[cfg(feature = "w32")]
modint_impl!(crrl::field::GFsecp256k1, "GFsecp256k1",
    "fffffffffffffffffffffffffffffffffffffffffffffffffffffffefffffc2f");

modint_impl!(crrl::field::GFp256, "GFp256",
    "ffffffff00000001000000000000000000000000ffffffffffffffffffffffff");
modint_impl!(crrl::ed25519::Scalar, "Sc25519",
    "1000000000000000000000000000000014def9dea2f79cd65812631a5cf5d3ed");
modint_impl!(crrl::p256::Scalar, "ScP256",
    "ffffffff00000000ffffffffffffffffbce6faada7179e84f3b9cac2fc632551");
modint_impl!(crrl::secp256k1::Scalar, "ScSecp256k1",
    "fffffffffffffffffffffffffffffffebaaedce6af48a03bbfd25e8cd0364141");
modint_impl!(crrl::jq255e::Scalar, "ScJq255e",
    "3fffffffffffffffffffffffffffffff9d0c930f54078c531f52c8ae74d84525");
modint_impl!(crrl::jq255s::Scalar, "ScJq255s",
    "40000000000000000000000000000000_2acf567a912b7f03dcf2ac65396152c7");
modint_impl!(crrl::gls254::Scalar, "ScGls254",
    "20000000000000000000000000000000_3f1a47dedc1a1dad3cbde37cf43a8cf5");

// Extra instantiations of the generic ModInt256 type, present only in the
// harness, to reach every modulus-size class of the Montgomery code.
pub type MSpec193 = crrl::field::ModInt256<0x0000000000000085, 0, 0, 1>;
pub type MSpec255 = crrl::field::ModInt256<0xFFFFFFFFFFFFFFE1, 0xFFFFFFFFFFFFFFFF,
                                          0xFFFFFFFFFFFFFFFF, 0x7FFFFFFFFFFFFFFF>;
pub type MSpec256 = crrl::field::ModInt256<0xFFFFFFFFFFFFFF43, 0xFFFFFFFFFFFFFFFF,
                                          0xFFFFFFFFFFFFFFFF, 0xFFFFFFFFFFFFFFFF>;
modint_impl!(MSpec193, "MSpec193",
    "1000000000000000000000000000000000000000000000085");
modint_impl!(MSpec255, "MSpec255",
    "7fffffffffffffffffffffffffffffffffffffffffffffffffffffffffffffe1");
modint_impl!(MSpec256, "MSpec256",
    "ffffffffffffffffffffffffffffffffffffffffffffffffffffffffffffff43");

impl FieldApi for crrl::ed448::Scalar {
    const NAME: &'static str = "Sc448";
    const ENC_LEN: usize = 56;
    const RAW_LEN: usize = 56;
    fn modulus() -> BigUint {
        (BigUint::from(1u32) << 446)
            - BigUint::parse_bytes(
                b"13818066809895115352007386748515426880336692474882178609894547503885", 10)
                .unwrap()
    }
    common_ops!(crrl::ed448::Scalar);
    fn raw(b: &[u8], variant: u32) -> Self {
        let x = limbs7(b);
        match variant & 3 {
            0 => crrl::ed448::Scalar::from_w64le(x),
            1 => crrl::ed448::Scalar::w64le(x),
            2 => crrl::ed448::Scalar::from_w64be(rev7(x)),
            _ => crrl::ed448::Scalar::w64be(rev7(x)),
        }
    }
    mulk_all!();
    fn mul_small(a: Self, k: u32) -> Option<Self> { Some(a.mul_small(k)) }
    fn invert(a: Self) -> Option<Self> { Some(a.invert()) }
    sqrt_both!();
    fn split(a: Self) -> Option<(Vec<u8>, Vec<u8>)> {
        let (c0, c1) = a.split_vartime();
        Some((c0.to_vec(), c1.to_vec()))
    }
    fn encode(a: Self) -> Vec<u8> { a.encode().to_vec() }
}

// ModInt256 instances at every encoding-length boundary (200, 208, ..., 248 bits, and 241 bits)
pub type MI200 = crrl::field::ModInt256<0xFFFFFFFFFFFFFFB5, 0xFFFFFFFFFFFFFFFF, 0xFFFFFFFFFFFFFFFF, 0x00000000000000FF>;
modint_impl!(MI200, "MI200", "ffffffffffffffffffffffffffffffffffffffffffffffffb5");
pub type MI208 = crrl::field::ModInt256<0xFFFFFFFFFFFFFED5, 0xFFFFFFFFFFFFFFFF, 0xFFFFFFFFFFFFFFFF, 0x000000000000FFFF>;
modint_impl!(MI208, "MI208", "fffffffffffffffffffffffffffffffffffffffffffffffffed5");
pub type MI216 = crrl::field::ModInt256<0xFFFFFFFFFFFFFE87, 0xFFFFFFFFFFFFFFFF, 0xFFFFFFFFFFFFFFFF, 0x0000000000FFFFFF>;
modint_impl!(MI216, "MI216", "fffffffffffffffffffffffffffffffffffffffffffffffffffe87");
pub type MI224 = crrl::field::ModInt256<0xFFFFFFFFFFFFFE95, 0xFFFFFFFFFFFFFFFF, 0xFFFFFFFFFFFFFFFF, 0x00000000FFFFFFFF>;
modint_impl!(MI224, "MI224", "fffffffffffffffffffffffffffffffffffffffffffffffffffffe95");
pub type MI232 = crrl::field::ModInt256<0xFFFFFFFFFFFFFD67, 0xFFFFFFFFFFFFFFFF, 0xFFFFFFFFFFFFFFFF, 0x000000FFFFFFFFFF>;
modint_impl!(MI232, "MI232", "fffffffffffffffffffffffffffffffffffffffffffffffffffffffd67");
pub type MI240 = crrl::field::ModInt256<0xFFFFFFFFFFFFFE2D, 0xFFFFFFFFFFFFFFFF, 0xFFFFFFFFFFFFFFFF, 0x0000FFFFFFFFFFFF>;
modint_impl!(MI240, "MI240", "fffffffffffffffffffffffffffffffffffffffffffffffffffffffffe2d");
pub type MI248 = crrl::field::ModInt256<0xFFFFFFFFFFFFFF13, 0xFFFFFFFFFFFFFFFF, 0xFFFFFFFFFFFFFFFF, 0x00FFFFFFFFFFFFFF>;
modint_impl!(MI248, "MI248", "ffffffffffffffffffffffffffffffffffffffffffffffffffffffffffff13");
pub type MI241 = crrl::field::ModInt256<0x0000000000000073, 0x0000000000000000, 0x0000000000000000, 0x0001000000000000>;
modint_impl!(MI241, "MI241", "1000000000000000000000000000000000000000000000000000000000073");

// user-defined moduli of the generic Montgomery field macro (64-bit backend): 3, 4, 6 and 8 limbs
#[cfg(not(feature = "w32"))]
mod gfgen_user {
    use crrl::backend::define_gfgen;
    pub struct P130; impl P130 { const MODULUS: [u64; 3] = [0xFFFFFFFFFFFFFFFB, 0xFFFFFFFFFFFFFFFF, 0x3]; }
    define_gfgen!(GG130, P130, gg130mod, false);
    pub struct P256; impl P256 { const MODULUS: [u64; 4] = [0xFFFFFFFFFFFFFF43, 0xFFFFFFFFFFFFFFFF, 0xFFFFFFFFFFFFFFFF, 0xFFFFFFFFFFFFFFFF]; }
    define_gfgen!(GG256, P256, gg256mod, false);
    pub struct P384; impl P384 { const MODULUS: [u64; 6] = [0xFFFFFFFFFFFFFEC3, 0xFFFFFFFFFFFFFFFF, 0xFFFFFFFFFFFFFFFF, 0xFFFFFFFFFFFFFFFF, 0xFFFFFFFFFFFFFFFF, 0xFFFFFFFFFFFFFFFF]; }
    define_gfgen!(GG384, P384, gg384mod, true);
    // shapes: low limb all ones (Curve448 prime, 7 limbs; P-256 prime, 4 limbs), 5 mod 8 (2^255 - 19)
    pub struct PC448; impl PC448 { const MODULUS: [u64; 7] = [0xFFFFFFFFFFFFFFFF, 0xFFFFFFFFFFFFFFFF, 0xFFFFFFFFFFFFFFFF, 0xFFFFFFFEFFFFFFFF, 0xFFFFFFFFFFFFFFFF, 0xFFFFFFFFFFFFFFFF, 0xFFFFFFFFFFFFFFFF]; }
    define_gfgen!(GGC448, PC448, ggc448mod, true);
    pub struct PP256; impl PP256 { const MODULUS: [u64; 4] = [0xFFFFFFFFFFFFFFFF, 0x00000000FFFFFFFF, 0x0000000000000000, 0xFFFFFFFF00000001]; }
    define_gfgen!(GGP256, PP256, ggp256mod, false);
    pub struct P25519; impl P25519 { const MODULUS: [u64; 4] = [0xFFFFFFFFFFFFFFED, 0xFFFFFFFFFFFFFFFF, 0xFFFFFFFFFFFFFFFF, 0x7FFFFFFFFFFFFFFF]; }
    define_gfgen!(GG25519, P25519, gg25519mod, false);
    pub struct P512; impl P512 { const MODULUS: [u64; 8] = [0xFFFFFFFFFFFFFDC7, 0xFFFFFFFFFFFFFFFF, 0xFFFFFFFFFFFFFFFF, 0xFFFFFFFFFFFFFFFF, 0xFFFFFFFFFFFFFFFF, 0xFFFFFFFFFFFFFFFF, 0xFFFFFFFFFFFFFFFF, 0xFFFFFFFFFFFFFFFF]; }
    define_gfgen!(GG512, P512, gg512mod, false);
}
#[cfg(not(feature = "w32"))]
macro_rules! gfgen_user_impl {
    ($t:ty, $name:expr, $nl:expr, $bits:expr, $modhex:expr) => {
        impl FieldApi for $t {
            const NAME: &'static str = $name;
            const ENC_LEN: usize = ($bits + 7) / 8;
            const RAW_LEN: usize = 8 * $nl;
            fn modulus() -> BigUint { hexnum($modhex) }
            common_ops!($t);
            fn raw(b: &[u8], variant: u32) -> Self {
                let mut x = [0u64; $nl];
                for i in 0..$nl { let mut t = [0u8; 8]; t.copy_from_slice(&b[8 * i..8 * i + 8]); x[i] = u64::from_le_bytes(t); }
                let mut y = x; y.reverse();
                match variant & 3 { 0 => <$t>::from_w64le(x), 1 => <$t>::w64le(x), 2 => <$t>::from_w64be(y), _ => <$t>::w64be(y) }
            }
            mulk_all!();
            fn mul_small(a: Self, k: u32) -> Option<Self> { Some(a.mul_small(k)) }
            fn invert(a: Self) -> Option<Self> { Some(a.invert()) }
            sqrt_both!();
            fn split(a: Self) -> Option<(Vec<u8>, Vec<u8>)> { let (c0, c1) = a.split_vartime(); Some((c0.to_vec(), c1.to_vec())) }
            fn encode(a: Self) -> Vec<u8> { a.encode().to_vec() }
        }
    };
}
#[cfg(not(feature = "w32"))]
gfgen_user_impl!(gfgen_user::GG130, "GG130", 3, 130usize, "3fffffffffffffffffffffffffffffffb");
#[cfg(not(feature = "w32"))]
gfgen_user_impl!(gfgen_user::GG256, "GG256", 4, 256usize, "ffffffffffffffffffffffffffffffffffffffffffffffffffffffffffffff43");
#[cfg(not(feature = "w32"))]
gfgen_user_impl!(gfgen_user::GG384, "GG384", 6, 384usize, "fffffffffffffffffffffffffffffffffffffffffffffffffffffffffffffffffffffffffffffffffffffffffffffec3");
#[cfg(not(feature = "w32"))]
gfgen_user_impl!(gfgen_user::GG512, "GG512", 8, 512usize, "fffffffffffffffffffffffffffffffffffffffffffffffffffffffffffffffffffffffffffffffffffffffffffffffffffffffffffffffffffffffffffffdc7");
#[cfg(not(feature = "w32"))]
gfgen_user_impl!(gfgen_user::GGC448, "GGC448", 7, 448usize, "fffffffffffffffffffffffffffffffffffffffffffffffffffffffeffffffffffffffffffffffffffffffffffffffffffffffffffffffff");
#[cfg(not(feature = "w32"))]
gfgen_user_impl!(gfgen_user::GGP256, "GGP256", 4, 256usize, "ffffffff00000001000000000000000000000000ffffffffffffffffffffffff");
#[cfg(not(feature = "w32"))]
gfgen_user_impl!(gfgen_user::GG25519, "GG25519", 4, 255usize, "7fffffffffffffffffffffffffffffffffffffffffffffffffffffffffffffed");

// ------------------------------------------------------------------------
// input classes

fn to_le(x: &BigUint, n: usize) -> Vec<u8> {
    let mut b = x.to_bytes_le();
    if b == [0] {
        b.clear();
    }
    assert!(b.len() <= n, "value does not fit");
    b.resize(n, 0);
    b
}

/// Boundary values for a raw constructor of `raw_len` bytes over modulus q:
/// everything the carry chains, folds and final subtractions distinguish.
pub fn boundary_values(q: &BigUint, raw_len: usize) -> Vec<(String, Vec<u8>)> {
    let one = BigUint::from(1u32);
    let top = &one << (8 * raw_len); // 2^(8R)
    let fold = &top % q; // what 2^(8R) folds to
    let mut v: Vec<(String, BigUint)> = Vec::new();
    let mut push = |n: &str, x: BigUint| {
        if x < top {
            v.push((n.to_string(), x));
        }
    };
    push("0", BigUint::from(0u32));
    push("1", one.clone());
    push("2", BigUint::from(2u32));
    push("q-2", q - 2u32);
    push("q-1", q - 1u32);
    push("q", q.clone());
    push("q+1", q + 1u32);
    push("2q-1", q * 2u32 - 1u32);
    push("2q", q * 2u32);
    push("2q+1", q * 2u32 + 1u32);
    push("(q-1)/2", (q - 1u32) / 2u32);
    push("(q+1)/2", (q + 1u32) / 2u32);
    push("max", &top - 1u32);
    push("max-1", &top - 2u32);
    push("max-fold", &top - &fold);
    push("max-fold-1", &top - &fold - 1u32);
    push("max-fold+1", &top - &fold + 1u32);
    push("max-2fold", &top - (&fold * 2u32) % &top);
    push("fold", fold.clone());
    push("fold-1", &fold - 1u32);
    push("2fold", &fold * 2u32);
    push("2fold-1", &fold * 2u32 - 1u32);
    push("topbit", &one << (8 * raw_len - 1));
    push("topbit-1", (&one << (8 * raw_len - 1)) - 1u32);
    push("topbit+1", (&one << (8 * raw_len - 1)) + 1u32);
    push("2^64-1", (&one << 64) - 1u32);
    push("2^64", &one << 64);
    push("2^128-1", (&one << 128) - 1u32);
    push("2^128", &one << 128);
    push("2^192-1", (&one << 192) - 1u32);
    push("2^192", &one << 192);
    push("q-2^64", q - (&one << 64));
    push("q-2^128", q - (&one << 128));
    push("lo-limb-only-max", (&one << 64) - 1u32);
    push("hi-limbs-max", &top - (&one << 64));
    push("alt-limbs", {
        let mut x = BigUint::from(0u32);
        for i in (0..raw_len / 8).step_by(2) {
            x += ((&one << 64) - 1u32) << (64 * i);
        }
        x
    });
    // values whose INTERNAL Montgomery representation (y stored for the value y / 2^(8*raw_len)) is a limb-boundary pattern
    let r = &top % q;
    if r != BigUint::from(0u32) {
        let rinv = r.modpow(&(q - 2u32), q);
        let w64: BigUint = (&one << 64usize) - 1u32;
        let pats: Vec<(&str, BigUint)> = vec![("mont:limb0-max", w64.clone()), ("mont:limb1-max", &w64 << 64), ("mont:lo128-max", (&one << 128) - 1u32),
            ("mont:q-1", q - 1u32), ("mont:1", one.clone()), ("mont:q-2^64", q - (&one << 64)), ("mont:alt", (&w64 << 64) | (&w64 << 192)),
            ("mont:top", &one << (q.bits() - 1))];
        for (n, y) in pats { if y < *q { v.push((n.to_string(), (&y * &rinv) % q)); } }
    }
    v.into_iter().map(|(n, x)| (n, to_le(&x, raw_len))).collect()
}

pub fn random_raw(rng: &mut Rng, q: &BigUint, raw_len: usize) -> Vec<u8> {
    // mix of shapes: uniform, sparse, near-boundary, limb lattice
    let one = BigUint::from(1u32);
    let top = &one << (8 * raw_len);
    match rng.below(8) {
        0 | 1 | 2 => rng.bytes(raw_len),
        3 => {
            // limb lattice: each 64-bit limb from a small alphabet
            let fold = (&top % q).to_bytes_le();
            let mut f = [0u8; 8];
            for i in 0..8.min(fold.len()) {
                f[i] = fold[i];
            }
            let foldlo = u64::from_le_bytes(f);
            let alpha = [0u64, 1, foldlo.wrapping_sub(1), foldlo, (1u64 << 63) - 1, 1u64 << 63,
                         0u64.wrapping_sub(foldlo), 0u64.wrapping_sub(foldlo).wrapping_sub(1),
                         u64::MAX, u64::MAX - 1, 0xFFFFFFFF, 0x100000000, 0xFFFFFFFF00000000];
            let mut b = Vec::new();
            for _ in 0..raw_len / 8 {
                b.extend_from_slice(&rng.pick(&alpha).to_le_bytes());
            }
            b
        }
        4 => {
            // q*m + small or - small
            let m = rng.below(3) as u32;
            let s = BigUint::from(rng.u64() >> rng.below(64));
            let base = q * m;
            let x = if rng.chance(1, 2) { base + s } else if base >= s { base - s } else { s };
            if x < top { to_le(&x, raw_len) } else { rng.bytes(raw_len) }
        }
        5 => {
            // max - small
            let s = BigUint::from(rng.u64() >> rng.below(64));
            to_le(&(&top - 1u32 - s), raw_len)
        }
        6 => {
            // t * 2^s  or  q - t*2^s
            let t = BigUint::from(rng.u64() >> rng.below(60));
            let s = rng.below(8 * raw_len);
            let x = (t << s) % &top;
            let x = if rng.chance(1, 2) && *q > x { q - x } else { x };
            to_le(&x, raw_len)
        }
        _ => {
            // small values
            to_le(&BigUint::from(rng.u64() >> rng.below(64)), raw_len)
        }
    }
}

// ------------------------------------------------------------------------
// the register machine

const NREG: usize = 12;

struct Mach<'a, F: FieldApi> {
    regs: [F; NREG],
    tr: &'a mut Trace,
    timeouts: u32,
}

impl<'a, F: FieldApi> Mach<'a, F> {
    fn new(tr: &'a mut Trace) -> Self {
        tr.emit(Ev::new("init").s("ty", F::NAME));
        Mach { regs: [F::cst("ZERO"); NREG], tr, timeouts: 0 }
    }

    fn obs(e: Ev, r: Result<F, String>) -> (Ev, Option<F>) {
        match r {
            Ok(v) => match guarded(move || F::encode(v)) {
                Ok(enc) => (e.b("out", &enc), Some(v)),
                Err(m) => (e.s("panic", &m), None),
            },
            Err(m) => (e.s("panic", &m), None),
        }
    }

    // returns false when the script must be abandoned (panic in a register write)
    fn put(&mut self, dst: usize, e: Ev, r: Result<F, String>) -> bool {
        let (e, v) = Self::obs(e.n("dst", dst as i64), r);
        self.tr.emit(e);
        match v {
            Some(v) => { self.regs[dst] = v; true }
            None => false,
        }
    }

    fn raw(&mut self, dst: usize, b: &[u8], variant: u32) -> bool {
        let bb = b.to_vec();
        let r = guarded(move || F::raw(&bb, variant));
        self.put(dst, Ev::new("raw").b("b", b).n("v", variant as i64), r)
    }

    fn bin(&mut self, op: &str, dst: usize, a: usize, b: usize, v: u32) -> bool {
        let (x, y) = (self.regs[a], self.regs[b]);
        let o = op.to_string();
        let r = guarded(move || match o.as_str() {
            "add" => F::add(x, y, v),
            "sub" => F::sub(x, y, v),
            "mul" => F::mul(x, y, v),
            _ => F::div(x, y, v),
        });
        self.put(dst, Ev::new(op).n("a", a as i64).n("b", b as i64).n("v", v as i64), r)
    }

    fn un(&mut self, op: &str, dst: usize, a: usize, v: u32) -> bool {
        let x = self.regs[a];
        let o = op.to_string();
        let r = guarded(move || match o.as_str() {
            "neg" => Some(F::neg(x, v)),
            "square" => Some(F::square(x, v)),
            "half" => Some(F::half(x)),
            "invert" => F::invert(x),
            "mul2" => F::mulk(x, 2),
            "mul3" => F::mulk(x, 3),
            "mul4" => F::mulk(x, 4),
            "mul8" => F::mulk(x, 8),
            "mul16" => F::mulk(x, 16),
            "mul32" => F::mulk(x, 32),
            "mul21" => F::mulk(x, 21),
            _ => None,
        });
        match r {
            Ok(None) => true, // operation not offered by this type
            Ok(Some(y)) => self.put(dst, Ev::new(op).n("a", a as i64).n("v", v as i64), Ok(y)),
            Err(m) => self.put(dst, Ev::new(op).n("a", a as i64).n("v", v as i64), Err(m)),
        }
    }

    fn xsquare(&mut self, dst: usize, a: usize, n: u32) -> bool {
        let x = self.regs[a];
        let r = guarded(move || F::xsquare(x, n));
        self.put(dst, Ev::new("xsquare").n("a", a as i64).n("n", n as i64), r)
    }

    fn mul_small(&mut self, dst: usize, a: usize, k: u32) -> bool {
        let x = self.regs[a];
        match guarded(move || F::mul_small(x, k)) {
            Ok(None) => true,
            Ok(Some(y)) => self.put(dst, Ev::new("mul_small").n("a", a as i64)
                .b("k", &trim(&k.to_le_bytes())), Ok(y)),
            Err(m) => self.put(dst, Ev::new("mul_small").n("a", a as i64)
                .b("k", &trim(&k.to_le_bytes())), Err(m)),
        }
    }

    fn from_int(&mut self, dst: usize, kind: &str, neg: bool, mag: u128) -> bool {
        let k = kind.to_string();
        let r = guarded(move || F::from_int(&k, neg, mag));
        self.put(dst, Ev::new("fromint").s("kind", kind).t("neg", neg)
            .b("mag", &trim(&mag.to_le_bytes())), r)
    }

    fn cst(&mut self, dst: usize, name: &str) -> bool {
        let n = name.to_string();
        let r = guarded(move || F::cst(&n));
        self.put(dst, Ev::new("const").s("name", name), r)
    }

    fn encode(&mut self, a: usize) {
        let x = self.regs[a];
        let e = Ev::new("encode").n("a", a as i64);
        let e = match guarded(move || (F::encode(x), F::encode32(x))) {
            Ok((o, o32)) => {
                let e = e.b("out", &o);
                match o32 { Some(o32) => e.b("out32", &o32), None => e }
            }
            Err(m) => e.s("panic", &m),
        };
        self.tr.emit(e);
    }

    fn equals(&mut self, a: usize, b: usize) {
        let (x, y) = (self.regs[a], self.regs[b]);
        let e = Ev::new("equals").n("a", a as i64).n("b", b as i64);
        let e = match guarded(move || F::equals(x, y)) {
            Ok(w) => e.st("st", w),
            Err(m) => e.s("panic", &m),
        };
        self.tr.emit(e);
    }

    fn iszero(&mut self, a: usize) {
        let x = self.regs[a];
        let e = Ev::new("iszero").n("a", a as i64);
        let e = match guarded(move || F::iszero(x)) {
            Ok(w) => e.st("st", w),
            Err(m) => e.s("panic", &m),
        };
        self.tr.emit(e);
    }

    fn legendre(&mut self, a: usize) {
        let x = self.regs[a];
        let e = Ev::new("legendre").n("a", a as i64);
        let e = match guarded(move || F::legendre(x)) {
            Ok(w) => e.n("res", w as i64),
            Err(m) => e.s("panic", &m),
        };
        self.tr.emit(e);
    }

    fn sqrt(&mut self, ext: bool, dst: usize, a: usize) -> bool {
        // documented: not implemented (panics) when the modulus is 1 mod 8
        if F::modulus() % 8u32 == BigUint::from(1u32) { return true; }
        let x = self.regs[a];
        let op = if ext { "sqrt_ext" } else { "sqrt" };
        match guarded(move || if ext { F::sqrt_ext(x) } else { F::sqrt(x) }) {
            Ok(None) => true,
            Ok(Some((y, st))) => {
                let e = Ev::new(op).n("a", a as i64).st("st", st);
                self.put(dst, e, Ok(y))
            }
            Err(m) => self.put(dst, Ev::new(op).n("a", a as i64), Err(m)),
        }
    }

    fn split(&mut self, a: usize) {
        let x = self.regs[a];
        if self.tr.careful {
            let enc = F::encode(x);
            self.tr.pending(Ev::new("split").s("ty", F::NAME).b("k", &enc));
        }
        // the only variable-time loop of the field API: watchdog (10 s for a
        // call that normally takes microseconds); at most 3 abandoned threads
        if self.timeouts >= 3 { return; }
        match guarded_timeout(10, move || F::split(x)) {
            Ok(None) => {}
            Ok(Some((c0, c1))) => {
                let (n0, m0) = signed_le(&c0);
                let (n1, m1) = signed_le(&c1);
                self.tr.emit(Ev::new("split").n("a", a as i64)
                    .t("n0", n0).b("m0", &m0).t("n1", n1).b("m1", &m1)
                    .n("w", (8 * c0.len()) as i64));
            }
            Err(m) => {
                if m == "timeout" { self.timeouts += 1; }
                self.tr.emit(Ev::new("split").n("a", a as i64).s("panic", &m))
            }
        }
    }

    fn decode(&mut self, kind: &str, dst: usize, b: &[u8], v: u32) -> bool {
        let bb = b.to_vec();
        let e = Ev::new(kind).b("in", b).n("v", v as i64);
        match kind {
            "decode_ct" => match guarded(move || F::decode_ct(&bb, v)) {
                Ok((y, st)) => self.put(dst, e.st("st", st), Ok(y)),
                Err(m) => self.put(dst, e, Err(m)),
            },
            "decode32" => match guarded(move || F::decode32(&bb)) {
                Ok(None) => true,
                Ok(Some((y, st))) => self.put(dst, e.st("st", st), Ok(y)),
                Err(m) => self.put(dst, e, Err(m)),
            },
            "decode" => match guarded(move || F::decode(&bb)) {
                Ok(Some(y)) => self.put(dst, e.t("some", true), Ok(y)),
                Ok(None) => { self.tr.emit(e.t("some", false).n("dst", dst as i64)); true }
                Err(m) => self.put(dst, e, Err(m)),
            },
            _ => {
                let r = guarded(move || F::decode_reduce(&bb, v));
                self.put(dst, e, r)
            }
        }
    }

    fn set_cond(&mut self, dst: usize, a: usize, ctl: u32) -> bool {
        let (mut d, x) = (self.regs[dst], self.regs[a]);
        let r = guarded(move || { F::set_cond(&mut d, &x, ctl); d });
        self.put(dst, Ev::new("set_cond").n("a", a as i64).st("ctl", ctl), r)
    }

    fn select(&mut self, dst: usize, a0: usize, a1: usize, ctl: u32) -> bool {
        let (x, y) = (self.regs[a0], self.regs[a1]);
        let r = guarded(move || F::select(&x, &y, ctl));
        self.put(dst, Ev::new("select").n("a0", a0 as i64).n("a1", a1 as i64).st("ctl", ctl), r)
    }

    fn cswap(&mut self, a: usize, b: usize, ctl: u32) -> bool {
        if a == b { return true; }
        let (mut x, mut y) = (self.regs[a], self.regs[b]);
        let e = Ev::new("cswap").n("a", a as i64).n("b", b as i64).st("ctl", ctl);
        match guarded(move || { F::cswap(&mut x, &mut y, ctl); (x, y, F::encode(x), F::encode(y)) }) {
            Ok((x, y, ex, ey)) => {
                self.regs[a] = x;
                self.regs[b] = y;
                self.tr.emit(e.b("outa", &ex).b("outb", &ey));
                true
            }
            Err(m) => { self.tr.emit(e.s("panic", &m)); false }
        }
    }

    // table = registers cycled to 16*width entries; result: width consecutive entries (zeros if j > 15)
    fn lookup(&mut self, width: usize, j: u32) {
        let rs: Vec<i64> = (0..16 * width).map(|i| ((i * 5 + i / NREG) % NREG) as i64).collect();
        let tab: Vec<F> = rs.iter().map(|&i| self.regs[i as usize]).collect();
        let e = Ev::new("lookup16").nn("rs", &rs).n("width", width as i64).b("j", &trim(&j.to_le_bytes()));
        match guarded(move || F::lookup16(&tab, width, j).map(|v| v.iter().map(|x| F::encode(*x)).collect::<Vec<_>>())) {
            Ok(None) => {}
            Ok(Some(outs)) => self.tr.emit(e.bb("outs", &outs)),
            Err(m) => self.tr.emit(e.s("panic", &m)),
        }
    }

    fn nrmul(&mut self, dst: usize, f: u32, xs: [usize; 3], g: u32, ys: [usize; 3], v: u32) -> bool {
        let x = [self.regs[xs[0]], self.regs[xs[1]], self.regs[xs[2]]];
        let y = [self.regs[ys[0]], self.regs[ys[1]], self.regs[ys[2]]];
        let e = Ev::new("nrmul").n("f", f as i64).nn("xs", &[xs[0] as i64, xs[1] as i64, xs[2] as i64])
            .n("g", g as i64).nn("ys", &[ys[0] as i64, ys[1] as i64, ys[2] as i64]).n("v", (v % 5) as i64);
        match guarded(move || F::nrmul(f, x, g, y, v)) {
            Ok(None) => true,
            Ok(Some(r)) => self.put(dst, e, Ok(r)),
            Err(m) => self.put(dst, e, Err(m)),
        }
    }
    fn batch_invert(&mut self, rs: &[usize]) -> bool {
        let mut xx: Vec<F> = rs.iter().map(|&i| self.regs[i]).collect();
        let idx: Vec<i64> = rs.iter().map(|&i| i as i64).collect();
        let e = Ev::new("batch_invert").nn("rs", &idx);
        match guarded(move || {
            F::batch_invert(&mut xx);
            let outs: Vec<Vec<u8>> = xx.iter().map(|x| F::encode(*x)).collect();
            (xx, outs)
        }) {
            Ok((xx, outs)) => {
                // duplicates in rs: slice semantics = last write wins; the
                // script generator never repeats a register in rs
                for (k, &i) in rs.iter().enumerate() { self.regs[i] = xx[k]; }
                self.tr.emit(e.bb("outs", &outs));
                true
            }
            Err(m) => { self.tr.emit(e.s("panic", &m)); false }
        }
    }
}

impl<'a, F: FieldApi> Mach<'a, F> {
    /// batch inversion of a long slice: element i is register i mod NREG, or zero at the positions zs;
    /// registers are not modified
    fn batch_long(&mut self, n: usize, zs: &[usize]) {
        let regs = self.regs;
        let zero = match guarded(|| F::cst("ZERO")) { Ok(z) => z, Err(_) => return };
        let mut xx: Vec<F> = (0..n).map(|i| if zs.contains(&i) { zero } else { regs[i % NREG] }).collect();
        let zi: Vec<i64> = zs.iter().filter(|&&z| z < n).map(|&z| z as i64).collect();
        let e = Ev::new("batch_long").n("n", n as i64).nn("zs", &zi);
        match guarded(move || {
            F::batch_invert(&mut xx);
            xx.iter().map(|x| F::encode(*x)).collect::<Vec<Vec<u8>>>()
        }) {
            Ok(outs) => self.tr.emit(e.bb("outs", &outs)),
            Err(m) => self.tr.emit(e.s("panic", &m)),
        }
    }
}

// ------------------------------------------------------------------------
// script generators

pub struct Plan {
    pub lattice_pairs: usize,   // boundary x boundary operand pairs (0 = all)
    pub random_scripts: usize,  // random programs
    pub script_len: usize,
    pub codec_random: usize,    // random candidate strings for the decoders
    pub div_cases: usize,       // extra division / sqrt / legendre operands
    pub split_cases: usize,
    pub gcd_sweep: usize,
    pub mulsearch: usize,
    pub profile: String,
}

const CTL: [u32; 2] = [0, 0xFFFFFFFF];

fn run_lattice<F: FieldApi>(tr: &mut Trace, rng: &mut Rng, plan: &Plan) {
    let q = F::modulus();
    let bv = boundary_values(&q, F::RAW_LEN);
    let n = bv.len();
    let mut pairs: Vec<(usize, usize)> = Vec::new();
    for i in 0..n { for j in 0..n { pairs.push((i, j)); } }
    if plan.lattice_pairs != 0 && plan.lattice_pairs < pairs.len() {
        // deterministic sample without replacement
        for k in 0..plan.lattice_pairs {
            let j = k + rng.below(pairs.len() - k);
            pairs.swap(k, j);
        }
        pairs.truncate(plan.lattice_pairs);
    }
    let mut m = Mach::<F>::new(tr);
    for (k, (i, j)) in pairs.iter().enumerate() {
        let v = k as u32;
        if !(m.raw(0, &bv[*i].1, v) && m.raw(1, &bv[*j].1, v >> 2)) { m = Mach::<F>::new(tr); continue; }
        let ok = m.bin("add", 2, 0, 1, v)
            && m.bin("sub", 3, 0, 1, v >> 1)
            && m.bin("mul", 4, 0, 1, v >> 2)
            // feed the (possibly non-normalised) results into further operations
            && m.bin("add", 5, 2, 3, v)
            && m.bin("sub", 6, 4, 2, v)
            && m.bin("mul", 7, 3, 5, v)
            && m.un("neg", 8, 3, v)
            && m.un("square", 9, 2, v)
            && m.un("half", 10, 3, v)
            && m.un("mul2", 11, 2, v);
        if ok {
            m.equals(0, 1);
            m.equals(2, 5);
            m.iszero(3);
            m.iszero(2);
        } else {
            m = Mach::<F>::new(tr);
        }
    }
    // every boundary value alone through every unary operation
    let mut m = Mach::<F>::new(tr);
    for (k, (_, b)) in bv.iter().enumerate() {
        let v = k as u32;
        if !m.raw(0, b, v) { m = Mach::<F>::new(tr); continue; }
        let mut ok = true;
        for op in ["neg", "square", "half", "mul2", "mul3", "mul4", "mul8", "mul16", "mul32", "mul21", "invert"] {
            ok = ok && m.un(op, 1, 0, v);
        }
        for n in [0u32, 1, 2, 5, 64, 255] { ok = ok && m.xsquare(2, 0, n); }
        for kk in [0u32, 1, 2, 19, 0x7FFF, 0x8000, 0xFFFF, 0x10000, 0x7FFFFFFF, 0x80000000, 0xFFFFFFFF] {
            ok = ok && m.mul_small(3, 0, kk);
        }
        if ok {
            m.encode(0);
            m.iszero(0);
            m.equals(0, 0);
        } else {
            m = Mach::<F>::new(tr);
        }
    }
    // carry-targeted multiplications by a small integer x: limb i of the operand is floor((m*2^64 - 1)/x), so that the
    // low half of limb_i * x falls within x of 2^64, and limb i-1 is all ones (its high half is x - 1): the carry into
    // the next word -- for the top limb, into the word that is folded back -- depends on that single sum
    {
        let nl = F::RAW_LEN / 8;
        let w = BigUint::from(1u32) << 64;
        let mut m = Mach::<F>::new(tr);
        for x in [3u32, 5, 19, 39081, 121665, 121666, 0xFFFF, 0x10001, 0x7FFFFFFF, 0xFFFFFFFF, (rng.u64() as u32) | 1, (rng.u64() as u32) | 0x8000_0001] {
            for i in 1..nl {
                for _rep in 0..2 {
                    let mm = BigUint::from(1 + rng.below((x - 1).max(1) as usize) as u32);
                    let li = ((&w * &mm) - 1u32) / x;
                    let mut a = BigUint::from_bytes_le(&rng.bytes(F::RAW_LEN));
                    // clear limbs i-1 and i, then set them
                    let mask = ((&w * &w) - 1u32) << (64 * (i - 1));
                    a = (&a | &mask) ^ &mask;
                    a |= ((&w - 1u32) << (64 * (i - 1))) | (li << (64 * i));
                    if !m.raw(0, &to_le(&a, F::RAW_LEN), x) { m = Mach::<F>::new(tr); continue; }
                    if !m.mul_small(1, 0, x) { m = Mach::<F>::new(tr); }
                }
            }
        }
    }
}

// operation mixes: which calls a random program draws from
fn draw(rng: &mut Rng, profile: &str) -> usize {
    match profile {
        // C01: constructors, ring operations, observations
        "ring" => *rng.pick(&[0, 1, 2, 3, 4, 5, 6, 7, 8, 9, 10, 11, 12, 13, 14, 15, 16, 17, 18, 19,
                              20, 21, 22, 23, 24, 25, 26, 27, 28, 29, 33, 34, 41, 41]),
        // C20: selection primitives between differently represented values
        "select" => *rng.pick(&[0, 1, 4, 9, 14, 27, 28, 28, 29, 29, 30, 30, 30, 31, 31, 31, 32, 32, 32, 33, 34, 40, 40]),
        // C12: division-like operations fed by ring results
        "div" => *rng.pick(&[0, 4, 9, 14, 21, 27, 35, 35, 35, 36, 36, 37, 37, 38, 38, 39]),
        _ => rng.below(42),
    }
}

fn random_op<F: FieldApi>(m: &mut Mach<F>, rng: &mut Rng, q: &BigUint, profile: &str) -> bool {
    let d = rng.below(NREG);
    let a = rng.below(NREG);
    let b = rng.below(NREG);
    let v = rng.u64() as u32;
    match draw(rng, profile) {
        0..=3 => m.raw(d, &random_raw(rng, q, F::RAW_LEN), v),
        4..=8 => m.bin("add", d, a, b, v),
        9..=13 => m.bin("sub", d, a, b, v),
        14..=19 => m.bin("mul", d, a, b, v),
        20 => m.un("neg", d, a, v),
        21 | 22 => m.un("square", d, a, v),
        23 => m.un("half", d, a, v),
        24 => m.un(*rng.pick(&["mul2", "mul3", "mul4", "mul8", "mul16", "mul32", "mul21"]), d, a, v),
        25 => m.xsquare(d, a, *rng.pick(&[0u32, 1, 2, 3, 7, 30, 100])),
        26 => {
            let k = match rng.below(4) { 0 => rng.u64() as u32, 1 => (rng.u64() as u32) >> 17,
                2 => *rng.pick(&[0u32, 1, 0xFFFF, 0xFFFFFFFF, 0x80000000]), _ => (rng.u64() as u32) & 0xFFFF };
            m.mul_small(d, a, k)
        }
        27 => { m.encode(a); true }
        28 => { m.equals(a, b); true }
        29 => { m.iszero(a); true }
        30 => m.set_cond(d, a, *rng.pick(&CTL)),
        31 => m.select(d, a, b, *rng.pick(&CTL)),
        32 => m.cswap(a, b, *rng.pick(&CTL)),
        33 => {
            let kinds = ["i32", "u32", "i64", "u64", "i128", "u128"];
            let kind = *rng.pick(&kinds);
            let bits = match kind { "i32" | "u32" => 32, "i64" | "u64" => 64, _ => 128 };
            let signed = kind.starts_with('i');
            let full: u128 = ((rng.u64() as u128) << 64) | rng.u64() as u128;
            let lim: u128 = if bits == 128 { u128::MAX } else { (1u128 << bits) - 1 };
            let (neg, mag) = if signed {
                let half = (lim >> 1) + 1; // 2^(bits-1)
                match rng.below(6) {
                    0 => (true, half),          // MIN
                    1 => (false, half - 1),     // MAX
                    2 => (true, 1),
                    3 => (rng.chance(1, 2), 0),
                    _ => { let m = (full & lim) >> rng.below(bits); let m = m % half; (rng.chance(1, 2) && m != 0, m) }
                }
            } else {
                match rng.below(4) { 0 => (false, lim), 1 => (false, 0), _ => (false, (full & lim) >> rng.below(bits)) }
            };
            m.from_int(d, kind, neg, mag)
        }
        34 => m.cst(d, *rng.pick(&["ZERO", "ONE", "MINUS_ONE"])),
        35 => m.bin("div", d, a, b, v),
        36 => { m.legendre(a); true }
        37 => m.sqrt(rng.chance(1, 2), d, a),
        38 => {
            let n = 1 + rng.below(4);
            let mut rs: Vec<usize> = Vec::new();
            while rs.len() < n { let r = rng.below(NREG); if !rs.contains(&r) { rs.push(r); } }
            m.batch_invert(&rs)
        }
        41 => m.nrmul(d, rng.below(9) as u32, [a, b, rng.below(NREG)], rng.below(9) as u32, [rng.below(NREG), rng.below(NREG), rng.below(NREG)], v),
        40 => {
            let j = *rng.pick(&[0u32, 1, 2, 7, 14, 15, 16, 17, 31, 32, 255, 256, 1 << 16, 1 << 31, u32::MAX, v & 15, v & 15]);
            m.lookup(if v & 16 == 0 { 3 } else { 4 }, j);
            true
        }
        _ => m.un("invert", d, a, v),
    }
}

fn run_random<F: FieldApi>(tr: &mut Trace, rng: &mut Rng, plan: &Plan) {
    let q = F::modulus();
    let bv = boundary_values(&q, F::RAW_LEN);
    for _ in 0..plan.random_scripts {
        let mut m = Mach::<F>::new(tr);
        // registers start from a mix of boundary and random representations
        let mut ok = true;
        for r in 0..NREG {
            let b = if rng.chance(1, 2) { rng.pick(&bv).1.clone() } else { random_raw(rng, &q, F::RAW_LEN) };
            ok = ok && m.raw(r, &b, rng.u64() as u32);
        }
        let mut i = 0;
        while ok && i < plan.script_len {
            ok = random_op(&mut m, rng, &q, &plan.profile);
            i += 1;
        }
        if ok { for r in 0..NREG { m.encode(r); } }
    }
}

/// Zero tests on near-zero patterns: every representation k*q of zero that fits the raw
/// constructor, with every single bit flipped (a mask that forgets one bit of one limb
/// shows here), through iszero, equals against another zero, and equals of (x + c, c).
fn run_zeroflip<F: FieldApi>(tr: &mut Trace, rng: &mut Rng, _plan: &Plan) {
    let q = F::modulus();
    let one = BigUint::from(1u32);
    let top = &one << (8 * F::RAW_LEN);
    let mut zeros: Vec<BigUint> = Vec::new();
    let mut z = BigUint::from(0u32);
    while z < top && zeros.len() < 5 { zeros.push(z.clone()); z += &q; }
    let mut m = Mach::<F>::new(tr);
    let mut ok = m.raw(1, &to_le(&zeros[zeros.len() - 1], F::RAW_LEN), 0)
        && m.raw(2, &random_raw(rng, &q, F::RAW_LEN), 0);
    for (zi, z) in zeros.iter().enumerate() {
        for b in 0..(8 * F::RAW_LEN) {
            let x = z ^ (&one << b);
            if x >= top { continue; }
            if !ok {
                m = Mach::<F>::new(tr);
                ok = m.raw(1, &to_le(&zeros[zeros.len() - 1], F::RAW_LEN), 0)
                    && m.raw(2, &random_raw(rng, &q, F::RAW_LEN), 0);
                if !ok { return; }
            }
            ok = m.raw(0, &to_le(&x, F::RAW_LEN), (zi * 1000 + b) as u32);
            if !ok { continue; }
            m.iszero(0);
            m.equals(0, 1);
            m.equals(1, 0);
            if b % 8 == 7 || b % 8 == 0 || b % 64 == 51 || b % 64 == 50 {
                ok = m.bin("add", 3, 0, 2, b as u32);
                if ok { m.equals(3, 2); m.equals(2, 3); ok = m.bin("sub", 4, 3, 2, b as u32); if ok { m.iszero(4); } }
            }
        }
    }
    // the same single-bit patterns placed in the INTERNAL representation of the Montgomery-form types:
    // the value y / R (R = 2^(8*RAW_LEN)) is stored as y; pairs (c, c + y/R) differ in exactly one stored bit
    // (up to carries).  For the other types these are just more values.
    let rinv = {
        let r = &top % &q;
        if r == BigUint::from(0u32) { return; }
        r.modpow(&(&q - 2u32), &q)
    };
    for b in 0..(8 * F::RAW_LEN) {
        let y = &one << b;
        if y >= q { break; }
        let x = (&y * &rinv) % &q;
        if !ok {
            m = Mach::<F>::new(tr);
            ok = m.raw(1, &to_le(&zeros[zeros.len() - 1], F::RAW_LEN), 0) && m.raw(2, &random_raw(rng, &q, F::RAW_LEN), 0);
            if !ok { return; }
        }
        ok = m.raw(0, &to_le(&x, F::RAW_LEN), b as u32);
        if !ok { continue; }
        m.iszero(0); m.equals(0, 1); m.equals(1, 0);
        ok = m.bin("add", 3, 0, 2, b as u32);
        if ok { m.equals(3, 2); m.equals(2, 3); }
    }
}

/// Candidate strings for the decoders: every length 0..=3*ENC_LEN+1 with
/// boundary contents, plus random.
fn run_codec<F: FieldApi>(tr: &mut Trace, rng: &mut Rng, plan: &Plan) {
    let q = F::modulus();
    let n = F::ENC_LEN;
    let one = BigUint::from(1u32);
    let mut m = Mach::<F>::new(tr);
    let mut cands: Vec<Vec<u8>> = Vec::new();
    for len in 0..=(3 * n + 1) {
        cands.push(vec![0u8; len]);
        cands.push(vec![0xFFu8; len]);
        if len > 0 {
            let mut t = vec![0u8; len]; t[len - 1] = 0x80; cands.push(t);
            let mut t = vec![0u8; len]; t[0] = 1; cands.push(t);
            cands.push(rng.bytes(len));
        }
        // q-1, q, q+1, 2q-1, 2q in this length (when they fit), and the same in the
        // low ENC_LEN bytes with non-zero bytes above
        for (k, x) in [&q - 1u32, q.clone(), &q + 1u32, &q * 2u32 - 1u32, &q * 2u32,
                       &q - &one - &one, (&one << (8 * n)) - 1u32 - (rng.u64() >> 40)]
            .iter().enumerate()
        {
            let b = x.to_bytes_le();
            if b.len() <= len {
                let mut t = b.clone(); t.resize(len, 0); cands.push(t.clone());
                if len > b.len() && k < 3 { t[len - 1] = 1; cands.push(t); }
            }
        }
    }
    // multi-block strings whose Horner folds carry: all-ones blocks, q-1 blocks
    for blocks in 2..=4 {
        let qb = to_le(&(&q - 1u32), n);
        let mut t = Vec::new(); for _ in 0..blocks { t.extend_from_slice(&qb); } cands.push(t.clone());
        t.push(0xFF); cands.push(t);
    }
    // fold-targeted two-block strings: the Horner step computes hi*2^(8n) + lo by folding hi*F (F = 2^(8n) mod q)
    // onto lo; choose lo so that the folded sum s1 = m + c*F (c*2^(8n) + m = hi*F + lo) lands just below / at / just
    // above 2^(8n) + j*2^64 and 2^(8n) + j*2^64 - F: second-fold carries and their limb overflows
    {
        let top = &one << (8 * n);
        let f = &top % &q;
        let w64 = &one << 64;
        let mut his: Vec<BigUint> = vec![&top - 1u32, &top - 2u32, &top - &f, &top - (&one << (8 * n - 20)), &q - 1u32,
                                         (&top - 1u32) - (BigUint::from(rng.u64()) << 64)];
        his.push(&top - 1u32 - BigUint::from(rng.u64() >> 8));
        for hi in his.iter() {
            let hf = hi * &f;
            let c0 = &hf >> (8 * n);
            let mut targets: Vec<BigUint> = Vec::new();
            for j in 0u32..4 {
                let base = &top + (&w64 * j);
                for d in [0u32, 1, 2] {
                    targets.push(&base + d);
                    if base > BigUint::from(d) { targets.push(&base - d); }
                    if &base + d >= f { targets.push(&base + d - &f); }
                    if base >= &f + d { targets.push(&base - &f - d); }
                    targets.push(&base + &f + d);
                }
                targets.push(&base + (BigUint::from(rng.u64()) % &f.clone().max(one.clone())));
                if &base + &w64 >= f { targets.push(&base + &w64 - &f + (BigUint::from(rng.u64()) % &f.clone().max(one.clone()))); }
            }
            for t in targets.iter() {
                for dc in [0u32, 1, 2] {
                    if dc == 2 && c0 == BigUint::from(0u32) { continue; }
                    let c = match dc { 0 => &c0 + 1u32, 1 => c0.clone(), _ => &c0 - 1u32 };
                    let cf = &c * &f;
                    if *t < cf { continue; }
                    let m = t - &cf;
                    if m >= top { continue; }
                    let tot = (&c << (8 * n)) + &m;
                    if tot < hf { continue; }
                    let lo = &tot - &hf;
                    if lo >= top { continue; }
                    let mut b = to_le(&lo, n); b.extend_from_slice(&to_le(hi, n));
                    cands.push(b.clone());
                    if cands.len() % 7 == 0 { b.splice(0..0, rng.bytes(n)); cands.push(b); }
                }
            }
        }
    }
    for _ in 0..plan.codec_random {
        let len = match rng.below(4) { 0 => n, 1 => rng.below(3 * n + 2), 2 => n + rng.below(2), _ => 2 * n };
        let mut b = rng.bytes(len);
        if len == n && rng.chance(1, 2) {
            // near the modulus: q + small delta (either sign)
            let d = BigUint::from(rng.u64() >> rng.below(64));
            let x = if rng.chance(1, 2) { &q + d } else { &q - d };
            if x.to_bytes_le().len() <= n { b = to_le(&x, n); }
        }
        cands.push(b);
    }
    let mut ok = true;
    for (k, c) in cands.iter().enumerate() {
        let v = k as u32;
        if !ok { m = Mach::<F>::new(tr); }
        ok = m.decode("decode_ct", 0, c, v)
            && m.decode("decode32", 1, c, v)
            && m.decode("decode", 2, c, v)
            && m.decode("decode_reduce", 3, c, v);
        if ok { m.encode(0); m.encode(3); }
    }
    // encode -> decode round trips of arbitrary representations
    if !ok { m = Mach::<F>::new(tr); }
    for k in 0..(plan.codec_random / 4).max(8) {
        let r = random_raw(rng, &q, F::RAW_LEN);
        if !m.raw(4, &r, k as u32) { m = Mach::<F>::new(tr); continue; }
        let enc = match guarded({ let x = m.regs[4]; move || F::encode(x) }) { Ok(e) => e, Err(_) => continue };
        m.encode(4);
        if !(m.decode("decode_ct", 5, &enc, k as u32) && m.decode("decode", 6, &enc, 0)) { m = Mach::<F>::new(tr); continue; }
        m.equals(4, 5);
        m.equals(4, 6);
    }
}

/// Operands for division, inversion, Legendre symbol and square roots.
fn run_div<F: FieldApi>(tr: &mut Trace, rng: &mut Rng, plan: &Plan) {
    let q = F::modulus();
    let one = BigUint::from(1u32);
    let bits = q.bits() as usize;
    let mut ys: Vec<BigUint> = Vec::new();
    for x in [0u32, 1, 2, 3, 4, 5, 7] { ys.push(BigUint::from(x)); ys.push(&q - x); }
    ys.push(q.clone()); ys.push(&q + 1u32); // non-canonical zero and one (if they fit the raw constructor)
    for s in 0..bits { ys.push(&one << s); ys.push(&q - (&one << s)); }
    // q - (t << s): makes the word-sized approximations of the two binary-GCD
    // operands coincide; values equal to q in their top 33 bits
    for _ in 0..plan.div_cases {
        let t = BigUint::from((rng.u64() >> rng.below(63)) | 1);
        let s = rng.below(bits);
        let y = (t << s) % &q;
        ys.push(&q - &y);
        ys.push(y);
        let lowbits = 1 + rng.below(bits - 33);
        let low = BigUint::from_bytes_le(&rng.bytes(F::RAW_LEN)) % (&one << lowbits);
        ys.push(((&q >> lowbits) << lowbits) ^ low);
        ys.push(BigUint::from_bytes_le(&rng.bytes(F::RAW_LEN)) % &q);
    }
    let top = &one << (8 * F::RAW_LEN);
    let mut m = Mach::<F>::new(tr);
    let mut ok = m.raw(1, &random_raw(rng, &q, F::RAW_LEN), 0) && m.cst(2, "ONE");
    for (k, y) in ys.iter().enumerate() {
        if !ok {
            m = Mach::<F>::new(tr);
            ok = m.raw(1, &random_raw(rng, &q, F::RAW_LEN), 0) && m.cst(2, "ONE");
            if !ok { continue; }
        }
        if *y >= top { continue; }
        let v = k as u32;
        // sometimes use the other representative y + q when it fits
        let yy = if rng.chance(1, 4) && (y + &q) < top { y + &q } else { y.clone() };
        ok = m.raw(0, &to_le(&yy, F::RAW_LEN), v)
            && m.bin("div", 3, 1, 0, v)     // x / y
            && m.bin("div", 4, 2, 0, v)     // 1 / y
            && m.bin("mul", 5, 3, 0, v)     // (x / y) * y
            && m.un("invert", 6, 0, v)
            && m.un("square", 7, 0, v)      // a square by construction
            && m.sqrt(false, 8, 7)
            && m.sqrt(true, 9, 7)
            && m.sqrt(false, 8, 0)
            && m.sqrt(true, 9, 0);
        if ok {
            m.legendre(0);
            m.legendre(7);
            if k % 16 == 0 { ok = m.raw(1, &random_raw(rng, &q, F::RAW_LEN), v); }
        }
    }
    // structured values on which the word-sized approximations of the binary GCD mislead it: +-(2^s + d), d in {-1, 1},
    // for every s, and q - delta for delta of every bit length (Legendre symbol and 1/y only)
    {
        let mut zs: Vec<BigUint> = Vec::new();
        for sft in 1..bits { for d in [0u32, 2] {
            let v = (&one << sft) + d - 1u32;
            if v < q { zs.push(v.clone()); zs.push(&q - &v); }
        } }
        let nd = if plan.gcd_sweep > 8000 { 40 } else { 6 };
        for dl in (8..bits - 1).step_by(3) { for _ in 0..nd {
            let delta = (BigUint::from_bytes_le(&rng.bytes(F::RAW_LEN)) % (&one << dl)) | (&one << (dl - 1));
            if delta < q { zs.push(&q - &delta); }
        } }
        let mut m = Mach::<F>::new(tr);
        let mut ok = m.cst(2, "ONE");
        for (k, z) in zs.iter().enumerate() {
            if !ok { m = Mach::<F>::new(tr); ok = m.cst(2, "ONE"); if !ok { break; } }
            ok = m.raw(0, &to_le(z, F::RAW_LEN), k as u32);
            if ok { m.legendre(0); if k % 3 == 0 { ok = m.bin("div", 4, 2, 0, k as u32); } }
        }
    }
    // GCD-length sweep: y = t*2^s for every small odd t and the top shift counts
    // (and q - y): the inputs on which a binary GCD needs its largest number of
    // iterations, where a short iteration budget loses the last sign updates
    let mut m = Mach::<F>::new(tr);
    let mut ok = m.cst(2, "ONE");
    let mut t = 1u32;
    while (t as usize) < plan.gcd_sweep {
        let tb = 32 - t.leading_zeros() as usize;
        for ds in 0..3usize {
            if bits < tb + ds { continue; }
            let y0 = BigUint::from(t) << (bits - tb - ds);
            for y in [y0.clone() % &q, &q - (y0 % &q)] {
                if !ok { m = Mach::<F>::new(tr); ok = m.cst(2, "ONE"); }
                ok = ok && m.raw(0, &to_le(&y, F::RAW_LEN), t);
                if ok { m.legendre(0); ok = m.bin("div", 4, 2, 0, t); }
            }
        }
        t += 2;
    }
    // batch inversion: slice lengths around the internal block size, zeros inside
    for len in [0usize, 1, 2, 3, 7, 8, 9, 10, 11] {
        let mut m = Mach::<F>::new(tr);
        let mut ok = true;
        let rs: Vec<usize> = (0..len).collect();
        for &r in &rs {
            let b = if rng.chance(1, 4) { vec![0u8; F::RAW_LEN] }
                    else if rng.chance(1, 8) { to_le(&q, F::RAW_LEN) }
                    else { random_raw(rng, &q, F::RAW_LEN) };
            ok = ok && m.raw(r, &b, 0);
        }
        if ok { m.batch_invert(&rs); }
    }
    // long slices: the implementations work in batches of 200; zeros in the first / last slot of a batch,
    // lengths that end a batch exactly, an all-zero batch
    {
        let mut m = Mach::<F>::new(tr);
        let mut ok = true;
        for r in 0..NREG {
            let b = if r == 5 { to_le(&q, F::RAW_LEN) } else { random_raw(rng, &q, F::RAW_LEN) };
            ok = ok && m.raw(r, &b, 0);
        }
        if ok {
            for (n, zs) in [(199usize, vec![0usize]), (200, vec![199]), (200, vec![0, 1]), (201, vec![200]), (201, vec![]),
                            (260, vec![200]), (260, vec![0, 199, 200, 201, 259]), (400, vec![399]), (401, vec![400]),
                            (403, vec![400, 401, 402]), (403, (0..200).collect::<Vec<usize>>())] {
                m.batch_long(n, &zs);
            }
        }
    }
}

/// Result-targeted products: operand pairs a, b whose raw patterns both have their top
/// `k` bits set (so that the double-width product is within 2^-k of its maximum and the
/// reduction takes its rare extra-carry paths) and whose product modulo q is a chosen
/// boundary value t (a few units above a limb boundary, below the fold constant, just
/// below q): b is solved as t/a and a is varied until b has the required shape.
fn run_mulsearch<F: FieldApi>(tr: &mut Trace, rng: &mut Rng, plan: &Plan) {
    if plan.mulsearch == 0 { return; }
    let q = F::modulus();
    let one = BigUint::from(1u32);
    let bits = 8 * F::RAW_LEN;
    let top = &one << bits;
    let fold = &top % &q;
    let k = 21usize;
    let floor = &top - (&one << (bits - k));
    let mut targets: Vec<BigUint> = Vec::new();
    for j in 1..(F::RAW_LEN / 8).min(3) {
        let base = &one << (64 * j);
        for d in [BigUint::from(0u32), &fold - 1u32, BigUint::from(rng.u64()) % &fold] {
            let t = &base + &d;
            if t < q { targets.push(t); }
        }
    }
    targets.push(&q - 1u32); targets.push(one.clone());
    let mut m = Mach::<F>::new(tr);
    let mut found = 0usize;
    let mut tries = 0usize;
    let per_target = 6_000_000usize;      // P(hit) = 2^-21 per try: 95% per target
    const BATCH: usize = 512;
    for t in targets.iter() {
        if tries >= plan.mulsearch { break; }
        let mut n = 0;
        'search: while n < per_target {
            // a_i = 2^bits - 1 - alpha_i with alpha_i below 2^(bits - k); all inverted with one modular
            // inversion (Montgomery's trick)
            let aa: Vec<BigUint> = (0..BATCH).map(|_| {
                let alpha = BigUint::from_bytes_le(&rng.bytes(F::RAW_LEN)) >> (k + rng.below(40));
                &top - 1u32 - &alpha }).collect();
            let ar: Vec<BigUint> = aa.iter().map(|a| a % &q).collect();
            let mut pre: Vec<BigUint> = Vec::with_capacity(BATCH);
            let mut acc = one.clone();
            for x in ar.iter() { pre.push(acc.clone()); acc = (&acc * x) % &q; }
            let mut inv = match acc.modinv(&q) { Some(x) => x, None => { n += BATCH; continue; } };
            for i in (0..BATCH).rev() {
                let ainv = (&inv * &pre[i]) % &q;
                inv = (&inv * &ar[i]) % &q;
                n += 1; tries += 1;
                let b0 = (t * ainv) % &q;
                let mut b = b0.clone();
                let mut hit = None;
                while b < top { if b >= floor { hit = Some(b.clone()); } b += &q; }
                if let Some(b) = hit {
                    found += 1;
                    let ok = m.raw(0, &to_le(&aa[i], F::RAW_LEN), found as u32) && m.raw(1, &to_le(&b, F::RAW_LEN), 0)
                        && m.bin("mul", 2, 0, 1, found as u32) && m.bin("mul", 3, 1, 0, 1)
                        && m.un("square", 4, 0, 0) && m.bin("mul", 5, 2, 1, 0) && m.bin("add", 6, 2, 3, 0);
                    if !ok { m = Mach::<F>::new(tr); }
                    break 'search;
                }
            }
        }
    }
    eprintln!("mulsearch {}: {} pairs found in {} tries", F::NAME, found, tries);
}

fn run_split<F: FieldApi>(tr: &mut Trace, rng: &mut Rng, plan: &Plan) {
    let q = F::modulus();
    if let Ok(None) = guarded(|| F::split(F::cst("ONE"))) { return; }
    let one = BigUint::from(1u32);
    let half_bits = (q.bits() as usize) / 2;
    let mut ks: Vec<BigUint> = Vec::new();
    for x in [0u32, 1, 2, 3] { ks.push(BigUint::from(x)); ks.push(&q - x - 1u32); }
    ks.push(&q / 2u32); ks.push(&q / 2u32 + 1u32); ks.push(&q / 3u32); ks.push(&q / 3u32 + 1u32);
    ks.push(q.sqrt()); ks.push(q.sqrt() + 1u32); ks.push(&q - q.sqrt());
    for s in 0..(q.bits() as usize) { ks.push((&one << s) % &q); ks.push(&q - (&one << s) % &q); }
    let inv = |x: &BigUint| x.modpow(&(&q - 2u32), &q);
    // exact powers of two (and neighbours) over / under small odd integers, both signs:
    // reconstructions with a coordinate of magnitude exactly 2^63, 2^64, 2^127, 2^128
    for j in [62usize, 63, 64, 65, 126, 127, 128, 129] {
        for d in [0i32, -1, 1] {
            let t = if d < 0 { (&one << j) - 1u32 } else { (&one << j) + (d as u32) };
            for m in [1u32, 3, 5, 7, 9, 255, 65537] {
                let mm = BigUint::from(m);
                let k1 = (&t * inv(&mm)) % &q;          // 2^j / m
                let k2 = (&mm * inv(&(&t % &q))) % &q;  // m / 2^j
                ks.push((&q - &k1) % &q); ks.push(k1);
                ks.push((&q - &k2) % &q); ks.push(k2);
            }
        }
    }
    // fraction-shaped scalars k = c0/c1 for magnitude classes of (c0, c1)
    let classes: Vec<usize> = vec![1, 2, 32, 63, 64, 65, half_bits - 2, half_bits - 1, half_bits,
                                   half_bits + 1, half_bits + 2];
    for _ in 0..plan.split_cases {
        let b0 = *rng.pick(&classes);
        let b1 = *rng.pick(&classes);
        let mk = |rng: &mut Rng, bits: usize| -> BigUint {
            let x = BigUint::from_bytes_le(&rng.bytes(bits / 8 + 1)) % (&one << bits);
            match rng.below(3) { 0 => x | (&one << (bits - 1)), 1 => (&one << bits) - 1u32 - (x >> (bits / 2)), _ => x | &one }
        };
        let c0 = mk(rng, b0) % &q;
        let c1 = mk(rng, b1) % &q;
        if c1 == BigUint::from(0u32) { continue; }
        let k = (&c0 * inv(&c1)) % &q;
        ks.push(if rng.chance(1, 2) { k } else { (&q - k) % &q });
        ks.push(BigUint::from_bytes_le(&rng.bytes(F::RAW_LEN)) % &q);
    }
    let mut m = Mach::<F>::new(tr);
    for (i, k) in ks.iter().enumerate() {
        if m.raw(0, &to_le(k, F::RAW_LEN), i as u32) { m.split(0); } else { m = Mach::<F>::new(tr); }
    }
}

pub fn run_type<F: FieldApi>(tr: &mut Trace, rng: &mut Rng, what: &str, plan: &Plan) {
    // harness self-check (not a verdict): the modulus used to build inputs is the type's
    let m1 = BigUint::from_bytes_le(&F::encode(F::cst("MINUS_ONE"))) + 1u32;
    assert!(m1 == F::modulus(), "harness modulus table wrong for {}", F::NAME);
    for w in what.split('+') {
        match w {
            "lattice" => run_lattice::<F>(tr, rng, plan),
            "random" => run_random::<F>(tr, rng, plan),
            "codec" => run_codec::<F>(tr, rng, plan),
            "div" => run_div::<F>(tr, rng, plan),
            "split" => run_split::<F>(tr, rng, plan),
            "mulsearch" => run_mulsearch::<F>(tr, rng, plan),
            "zeroflip" => run_zeroflip::<F>(tr, rng, plan),
            _ => panic!("unknown field sub-domain {}", w),
        }
    }
}

pub const TYPES: [&str; 17] = ["GF25519", "GF255e", "GF255s", "GFp256", "GFsecp256k1", "GF448",
    "Sc25519", "ScP256", "ScSecp256k1", "ScJq255e", "ScJq255s", "ScGls254", "Sc448",
    "MSpec193", "MSpec255", "MSpec256", "-"];

pub fn run(tr: &mut Trace, rng: &mut Rng, ty: &str, what: &str, plan: &Plan) {
    match ty {
        "GF25519" => run_type::<crrl::field::GF25519>(tr, rng, what, plan),
        "GF255e" => run_type::<crrl::field::GF255e>(tr, rng, what, plan),
        "GF255s" => run_type::<crrl::field::GF255s>(tr, rng, what, plan),
        "GFp256" => run_type::<crrl::field::GFp256>(tr, rng, what, plan),
        "GFsecp256k1" => run_type::<crrl::field::GFsecp256k1>(tr, rng, what, plan),
        "GF448" => run_type::<crrl::field::GF448>(tr, rng, what, plan),
        "Sc25519" => run_type::<crrl::ed25519::Scalar>(tr, rng, what, plan),
        "ScP256" => run_type::<crrl::p256::Scalar>(tr, rng, what, plan),
        "ScSecp256k1" => run_type::<crrl::secp256k1::Scalar>(tr, rng, what, plan),
        "ScJq255e" => run_type::<crrl::jq255e::Scalar>(tr, rng, what, plan),
        "ScJq255s" => run_type::<crrl::jq255s::Scalar>(tr, rng, what, plan),
        "ScGls254" => run_type::<crrl::gls254::Scalar>(tr, rng, what, plan),
        "Sc448" => run_type::<crrl::ed448::Scalar>(tr, rng, what, plan),
        #[cfg(not(feature = "w32"))]
        "GG130" => run_type::<gfgen_user::GG130>(tr, rng, what, plan),
        #[cfg(not(feature = "w32"))]
        "GG256" => run_type::<gfgen_user::GG256>(tr, rng, what, plan),
        #[cfg(not(feature = "w32"))]
        "GG384" => run_type::<gfgen_user::GG384>(tr, rng, what, plan),
        #[cfg(not(feature = "w32"))]
        "GG512" => run_type::<gfgen_user::GG512>(tr, rng, what, plan),
        #[cfg(not(feature = "w32"))]
        "GGC448" => run_type::<gfgen_user::GGC448>(tr, rng, what, plan),
        #[cfg(not(feature = "w32"))]
        "GGP256" => run_type::<gfgen_user::GGP256>(tr, rng, what, plan),
        #[cfg(not(feature = "w32"))]
        "GG25519" => run_type::<gfgen_user::GG25519>(tr, rng, what, plan),
        "MSpec193" => run_type::<MSpec193>(tr, rng, what, plan),
        "MI200" => run_type::<MI200>(tr, rng, what, plan),
        "MI208" => run_type::<MI208>(tr, rng, what, plan),
        "MI216" => run_type::<MI216>(tr, rng, what, plan),
        "MI224" => run_type::<MI224>(tr, rng, what, plan),
        "MI232" => run_type::<MI232>(tr, rng, what, plan),
        "MI240" => run_type::<MI240>(tr, rng, what, plan),
        "MI248" => run_type::<MI248>(tr, rng, what, plan),
        "MI241" => run_type::<MI241>(tr, rng, what, plan),
        "MSpec255" => run_type::<MSpec255>(tr, rng, what, plan),
        "MSpec256" => run_type::<MSpec256>(tr, rng, what, plan),
        _ => panic!("unknown field type {}", ty),
    }
}
