#!/usr/bin/env python3
"""Regenerate MANIFEST.json from the table below (single source of truth for
what is claimed)."""
import json
props = [json.loads(l) for l in open('/verif/properties.jsonl')]
TB = ("Trusted: TLC, java.math.BigInteger behind the BigNat module overrides (cross-checked against the pure "
      "TLA+ definitions by SelfTest.tla), the transcription of the mathematics/standards into TLA+ (hash "
      "specifications reproduce known-answer vectors under TLC); reach is bounded by the generated programs.")
TV = "TLA+ spec + TLC trace validation of recorded implementation traces"
CLAIMS = {
 "C01": ("Every recorded public call of register-machine programs over all prime-field/scalar types (16 of the crate plus 15 user-defined instances of the generic ModInt256 / define_gfgen! types) is a transition of the TLA+ field specification (TraceField.tla over PrimeField.tla), validated by TLC; programs cover all ordered pairs of boundary representations (incl. Montgomery-internal patterns), unreduced intermediate results, result-targeted products and seeded random programs. Design level: TLC enumerates the carry chains at 3-bit limbs (AlgGf255) and Apalache discharges the same statements at the real 64-bit limb width for all operands (apalache/Gf255Carry, Gf448Carry).", "TLA+ spec + TLC trace validation of recorded implementation calls; TLC and Apalache (SMT) on limb-level TLA+ models"),
 "C03": ("TLC validates every add/sub/neg/double/xdouble/mul_small call recorded on 8 group types (edwards25519, edwards448, P-256, secp256k1, ristretto255, decaf448, jq255e, jq255s) against the affine group law written from the curve equations (Curves.tla, Quotients.tla): low-order and special points against themselves, their opposites, the neutral and generic points, plus seeded random programs re-using results.", TV),
 "C04": ("TLC recomputes [k]P by double-and-add on the affine law for every recorded mul/mulgen call: boundary scalars, signed-digit carry patterns, endomorphism-split word-boundary scalars derived from the lattice of the split, and single-digit scalars selecting each precomputed table entry in isolation; design models of the signed-window recoding and of the rounded division behind the endomorphism splits are checked exhaustively at toy size (AlgRecode, AlgDivRound).", TV),
 "C06": ("TLC validates decode acceptance and value, encode, equals, isneutral and the byte-to-group maps against RFC 8032 / SEC1 / RFC 9496 / documented jq255 codecs in TLA+ on systematically malformed candidate strings of all lengths, and on representatives of the same element reached through different computations.", TV),
 "C07": ("TLC recomputes every verify_raw/ctx/ph verdict with the strict cofactored RFC 8032 predicate (EdDSA.tla, with SHA-512 / SHAKE256 in TLA+) and every signature / public key byte-exactly, on honest and adversarially constructed inputs (torsion components in A and R, S >= L, non-canonical and small-order encodings).", TV),
 "C08": ("TLC recomputes every ECDSA verification verdict (ECDSA.tla) and every signature byte-exactly (RFC 6979 HMAC-SHA-256 nonce with extra input for P-256, documented SHA-512 nonce for secp256k1) over key, hash-length, extra-randomness and signature range/length lattices.", TV),
 "C14": ("TLC recomputes X25519 / X448 (RFC 7748 ladder in XDH.tla) for low-order, twist, non-canonical and random u-coordinates and boundary scalars, and the base-point variants against the same specification value.", TV),
 "C09": ("TLC recomputes every jq255e / jq255s / GLS254 signature byte-exactly (documented BLAKE2s nonce and challenge), every verification verdict, private/public key decoding, and every ECDH status and success key from JqSchnorr.tla over the affine group laws of Quotients.tla / Gls254.tla; failure keys are required to differ under different local secrets and not to be derivable from public values by the scheme's own derivation.", TV),
 "C13": ("TLC validates truncated verification: an exhaustive sweep over every value of the truncated top bits of S (hence every entry of the search table, both directions) using the A = neutral construction with the specification tracking [S]B incrementally, plus honest Ed25519 / P-256 cases over all rm and invalid prefixes checked for soundness against EdDSA.tla / ECDSA.tla, P-256 signatures valid by construction in limb-boundary and short-form classes, and the x-only sequences (to_x_affine_diff, x_sequence_vartime) against the affine law; the case analysis and batching of x_sequence_vartime is model-checked on a toy curve (AlgXSeq).", "TLA+ spec with an incremental witness state + TLC trace validation; TLC model checking of the x-only sequence algorithm"),
 "C10": ("TLC validates u*P+v*G, the 128-bit multiplier variant and the verification helpers (relationally: [c](sG - R - kQ) = 0) on boundary multipliers (incl. every lattice-derived boundary scalar of the endomorphism curves and its opposite), fraction-shaped challenges and challenges whose shortest lattice vector has its large coordinate at the top of the reachable range; panics are rejected as non-transitions; the NAF recoding is model-checked exhaustively at toy size (AlgNaf).", TV),
 "C05": ("TLC validates every decode_ct/decode32/decode/decode_reduce/encode call recorded over all lengths 0..3*ENC_LEN+1 and boundary contents against the codec operators of PrimeField.tla.", TV),
 "C11": ("TLC checks the relational split contract (k*c1'=c0' mod q with the documented correction, (0,1) for zero) on every recorded split_vartime call, including fraction-shaped and unbalanced scalars, user-defined moduli of the generic types, the public GLS254 endomorphism split (k = k0 + k1*mu, bounds, oddness) and every operation of the public Zu128/Zu256/Zu384 helper integers (TraceZz.tla); non-termination is observed by a per-call watchdog and rejected as a non-transition; the two-loop lattice reduction is model-checked (AlgLagrange: contract, bounded steps, termination).", "TLA+ relational spec + TLC trace validation; TLC model checking of the reduction loops; watchdog for termination"),
 "C12": ("TLC validates division, inversion, batch inversion, Legendre symbol and square roots (relationally) of every recorded call against PrimeField.tla on GCD-pathological divisors (2^s, q-2^s, t*2^s sweep, shared top bits) in all representations, slices spanning the internal batch size of batch inversion, and user-defined moduli of special shapes; Montgomery's trick with zeros is model-checked exhaustively at toy size (AlgBatchInv).", TV),
 "C15": ("TLC enumerates FROST sessions (thresholds, arrival orders with duplicates and surplus signers, corruption sites) from FrostGen.tla, checking the coordinator's selection contract on the model; sampled sessions are replayed into the five ciphersuites and TLC recomputes every decision and value from the RFC 9591 specification in Frost.tla (VSS consistency, commitments, signature shares, share verification, aggregation, group / RFC 8032 verification, strict wire decoders).", "TLC-generated behaviours replayed into the code + TLC trace validation against a TLA+ transcription of RFC 9591"),
 "C16": ("TLC model-checks the key-counter design (LmsGen.tla: no leaf reuse, strictly increasing indices, state advanced before a signature is visible, termination) over every interleaving of sign / RNG-failure / exhausted-sign for a small tree, enumerates the histories for the real height with an RNG failure injected at every call position, and validates the replayed traces (leaf index of every signature, state after every call, verification accepts exactly the issued pairs; selected signatures recomputed with RFC 8554 in TLC); the inductive invariant of the counter is discharged by Apalache for any number of leaves, calls and failures (apalache/LmsInd).", "TLC model checking of the key state machine + Apalache inductive invariant + TLC-generated histories replayed into the code + TLC trace validation"),
 "C18": ("The field, group, hash and signature programs are re-executed under each non-default build configuration that compiles on this host and validated by TLC against the same TLA+ specification, so that every specified output equals one value whatever the backend.", TV),
 "C17": ("TLC enumerates every allowed call history (depth 3, 2 instances, symbolic length classes) of the HashGen.tla API model; the histories are replayed into the real hash types and TLC recomputes every digest / SHAKE chunk from the abstract message with SHA2.tla / Keccak.tla / Blake2s.tla (TraceHash.tla). The SHA-2 length field and the BLAKE2s block counter are driven to 2^29..2^63 bytes through the guarded hooks verif_skip_blocks (HashApi.Skip, ShaPadX, Blake2sX).", "TLC-generated behaviours replayed into the code + TLC trace validation against TLA+ hash specifications"),
 "C20": ("TLC validates set_cond/select/cswap/equals/iszero events between registers in different representations against the Select semantics in TraceField.tla, every representation k*q of zero with every single bit flipped (also in the internal Montgomery representation), other representatives of the same quotient-group element, and the constant-time table lookups incl. out-of-range indices.", TV),
}
NA_C02 = ("Constant-time behaviour is a property of branch targets and addresses in optimised machine code as a function of "
          "secret data; a TLA+ specification and API-level traces cannot observe it (needs binary-level taint tracking, a "
          "different technique). See DESIGN.md section 6, C02.")
LEVELS = {"C19": "exploration"}
CLAIMS["C19"] = ("Exploration: 50+ untrusted-input entry points swept over every length and several content classes, FROST verification on malformed lists, truncated verification over its whole rm range, and the decoding programs of the other properties, with TLC applying the acceptance rule of TraceTotal.tla (inside the documented domain a call returns; status words are 0 or 0xFFFFFFFF; a panic or watchdog timeout is no transition).", "input sweep recorded as a trace + TLC acceptance rule (documented domains in TLA+)")
checks, na = [], []
for p in props:
    pid = p["id"]
    if pid in CLAIMS:
        text, tech = CLAIMS[pid]
        checks.append({"property_id": pid, "quick_cmd": "bin/check %s --tier quick" % pid,
                       "thorough_cmd": "bin/check %s --tier thorough" % pid,
                       "evidence_file": "/verif/evidence/%s.json" % pid,
                       "replay_cmd_template": "bin/check --replay {path}", "engine": "tlc-trace-validation",
                       "level_claimed": {"category": LEVELS.get(pid, "model_checking"), "text": text,
                                         "design_ref": "DESIGN.md section 6 (%s)" % pid},
                       "level_note": TB, "technique": tech})
    elif pid == "C02":
        na.append({"property_id": pid, "reason": NA_C02})
    else:
        na.append({"property_id": pid, "reason": "check not built yet in this round (planned, see DESIGN.md section 6)"})
hooks = json.load(open('/verif/hooks.json')) if __import__('os').path.exists('/verif/hooks.json') else []
m = {"version": 1, "setup_cmd": "bin/check --setup",
     "hooks": {"guard": "crrl_verif",
               "enable": "RUSTFLAGS='--cfg crrl_verif' (set by bin/vlib.py when it builds the harness, which has a path dependency on /repo)",
               "baseline_off_cmd": "cd /repo && cargo test --workspace --no-fail-fast --offline",
               "source_commits": hooks, "add_only": True},
     "engines": [{"name": "tlc-trace-validation", "path": "bin/check", "serves_properties": sorted(CLAIMS),
                  "kind_free_text": "Rust harness (harness/, path dependency on /repo) records ndjson traces of public API calls; TLC validates them against spec/Trace*.tla (explicit TLA+ specification with BigNat Java overrides); TLC also enumerates call histories from generator models (spec/*Gen.tla) that are replayed into the code"}],
     "checks": checks,
     "notes": "See DESIGN.md. Genuine defects repaired in /repo by fix: commits are recorded in known_findings.json.",
     "not_applicable": na}
json.dump(m, open('/verif/MANIFEST.json', 'w'), indent=1)
print("claims:", sorted(CLAIMS))
