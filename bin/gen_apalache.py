#!/usr/bin/env python3
"""bin/gen_apalache.py: writes spec/apalache/Gf448Carry.tla -- one TLA+ definition per addcarry_u64 / subborrow_u64 call of
GF448::set_add / set_sub / set_neg (src/backend/w64/gf448.rs), in the order of the source, for Apalache (--length=0)."""
N = 7
HEAD = '''----------------------------- MODULE Gf448Carry -----------------------------
(***************************************************************************)
(* Full-width Apalache obligations for GF448::set_add / set_sub / set_neg  *)
(* (gf448.rs): seven 64-bit limbs, q = 2^448 - 2^224 - 1, folding rule     *)
(* 2^448 = 2^224 + 1, for ALL pairs of 448-bit limb patterns.  Generated   *)
(* by bin/gen_apalache.py from the step structure of the source (one       *)
(* definition per addcarry_u64 / subborrow_u64 call, same order).          *)
(* SubNoBorrowChain is the seeded change C01-d (third step without borrow  *)
(* propagation) and must be refuted.                                       *)
(***************************************************************************)
EXTENDS Integers

B == 18446744073709551616
H == 4294967296
Q == %d

VARIABLES''' % (2 ** 448 - 2 ** 224 - 1)


def gen(name, mode, mutant=False):
    out = ["%s ==\n  LET" % name]
    k = [0]

    def step(kind, dst, x, y, c):
        k[0] += 1
        n = k[0]
        if kind == "adc":
            out.append("      s%d == %s + %s + %s   %s == s%d %% B   c%d == s%d \\div B" % (n, x, y, c, dst, n, n, n))
        else:
            out.append("      s%d == %s - (%s) - %s   %s == s%d %% B   c%d == Bw(s%d)" % (n, x, y, c, dst, n, n, n))
        return "c%d" % n
    if mode == "add":
        c = "0"
        for i in range(N):
            c = step("adc", "d%d" % i, "a%d" % i, "b%d" % i, c)
        out.append("      e1 == %s" % c)
        c = "e1"
        for i in range(N):
            c = step("adc", "f%d" % i, "d%d" % i, ("e1 * H" if i == 3 else "0"), c)
        out.append("      e2 == %s" % c)
        c = "e2"
        for i in range(4):
            c = step("adc", "g%d" % i, "f%d" % i, ("e2 * H" if i == 3 else "0"), c)
        out.append("  IN (Val(g0, g1, g2, g3, f4, f5, f6) - (A + Bv)) % Q = 0")
    elif mode == "sub":
        c = "0"
        for i in range(N):
            c = step("sbb", "d%d" % i, "a%d" % i, "b%d" % i, c)
        out.append("      e1 == %s" % c)
        c = "e1"
        for i in range(N):
            c = step("sbb", "f%d" % i, "d%d" % i, ("e1 * H" if i == 3 else "0"), c)
        out.append("      e2 == %s" % c)
        if not mutant:
            c = "e2"
            for i in range(4):
                c = step("sbb", "g%d" % i, "f%d" % i, ("e2 * H" if i == 3 else "0"), c)
        else:
            out.append("      g0 == (f0 - e2) % B   g1 == f1   g2 == f2   g3 == (f3 - e2 * H) % B")
        out.append("  IN (Val(g0, g1, g2, g3, f4, f5, f6) - (A - Bv)) % Q = 0")
    else:
        mod = ["B - 1", "B - 1", "B - 1", "B - 1 - H", "B - 1", "B - 1", "B - 1"]
        c = "0"
        for i in range(N):
            c = step("sbb", "d%d" % i, "(%s)" % mod[i], "a%d" % i, c)
        out.append("      e1 == %s" % c)
        c = "e1"
        for i in range(4):
            c = step("sbb", "g%d" % i, "d%d" % i, ("e1 * H" if i == 3 else "0"), c)
        out.append("  IN (Val(g0, g1, g2, g3, d4, d5, d6) + A) % Q = 0")
    return "\n".join(out)


vs = ["a%d" % i for i in range(N)] + ["b%d" % i for i in range(N)]
L = [HEAD, ",\n".join("  \\* @type: Int;\n  %s" % v for v in vs), '''
Limb(x) == 0 <= x /\\ x < B
Init == /\\ %s
        /\\ %s
Next == %s
Bw(x) == IF x < 0 THEN 1 ELSE 0
Val(x0, x1, x2, x3, x4, x5, x6) == x0 + B * (x1 + B * (x2 + B * (x3 + B * (x4 + B * (x5 + B * x6)))))
A == Val(a0, a1, a2, a3, a4, a5, a6)
Bv == Val(b0, b1, b2, b3, b4, b5, b6)
''' % (" /\\ ".join("%s \\in Int" % v for v in vs), " /\\ ".join("Limb(%s)" % v for v in vs), " /\\ ".join("%s' = %s" % (v, v) for v in vs)),
     gen("AddOk", "add"), gen("SubOk", "sub"), gen("NegOk", "neg"), gen("SubNoBorrowChain", "sub", True),
     "============================================================================="]
open('/verif/spec/apalache/Gf448Carry.tla', 'w').write("\n".join(L) + "\n")
