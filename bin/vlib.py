#!/usr/bin/env python3
"""Shared machinery of bin/check: build the harness from /repo's working tree,
record traces, have TLC validate them against the TLA+ specification, run the
TLC model-checking configurations, classify rejected events, write evidence.

Exit codes of a check: 0 = held on everything explored (KNOWN-FINDING lines
allowed), 1 = at least one `VIOLATION property=<id> replay=<path>` line,
2 = tool error (build, TLC, self-test, timeout of a tool).  A panic or hang of
the code under test is data, not a tool error."""

import json, os, re, subprocess, sys, time, hashlib, shutil
from concurrent.futures import ThreadPoolExecutor

V = os.path.dirname(os.path.dirname(os.path.abspath(__file__)))
REPO = "/repo"
WORK = os.path.join(V, "work")
SPEC = os.path.join(V, "spec")
HARNESS = os.path.join(V, "harness")
TLA_JAR = "/opt/veriftools/tla/tla2tools.jar"
CM_JAR = "/opt/veriftools/tla/CommunityModules-deps.jar"

# build configurations of crrl that compile on this host (DESIGN.md section 3)
CFGS = {
    "default": dict(features=[], rustflags=""),
    "w32": dict(features=["w32"], rustflags=""),
    "m51": dict(features=["m51"], rustflags=""),
    "zz32": dict(features=["zz32"], rustflags=""),
    "clmul": dict(features=["clmul"], rustflags="-C target-feature=+sse4.1,+pclmulqdq,+avx2"),
    "avx2": dict(features=[], rustflags="-C target-feature=+avx2,+lzcnt"),
}


class ToolError(Exception):
    pass


def log(*a):
    print(*a, flush=True)


def run(cmd, timeout, env=None, cwd=None, stdout=None):
    e = dict(os.environ)
    if env:
        e.update(env)
    try:
        return subprocess.run(cmd, timeout=timeout, env=e, cwd=cwd, stdout=stdout or subprocess.PIPE,
                              stderr=subprocess.STDOUT, text=True)
    except subprocess.TimeoutExpired:
        raise ToolError("timeout after %ds: %s" % (timeout, " ".join(cmd)[:200]))


# ---------------------------------------------------------------- building

def ensure_overrides():
    cls = os.path.join(V, "overrides", "classes", "CrrlOverrides.class")
    src = os.path.join(V, "overrides", "CrrlOverrides.java")
    if not os.path.exists(cls) or os.path.getmtime(cls) < os.path.getmtime(src):
        os.makedirs(os.path.dirname(cls), exist_ok=True)
        r = run(["javac", "-encoding", "UTF-8", "-cp", TLA_JAR, "-d", os.path.dirname(cls), src], 300)
        if r.returncode != 0:
            raise ToolError("javac failed:\n" + r.stdout)


def harness_bin(cfg):
    return os.path.join(HARNESS, "target-" + cfg, "release", "crrl-conf")


def build_harness(cfg="default"):
    """Always invokes cargo: the harness is rebuilt from /repo's current working tree."""
    c = CFGS[cfg]
    lock = os.path.join(HARNESS, "Cargo.lock")
    if not os.path.exists(lock):
        shutil.copy(os.path.join(REPO, "Cargo.lock"), lock)
    cmd = ["cargo", "build", "--release", "--offline", "--target-dir", "target-" + cfg]
    if c["features"]:
        cmd += ["--features", ",".join(c["features"])]
    env = {"CARGO_NET_OFFLINE": "true"}
    flags = "--cfg crrl_verif --check-cfg cfg(crrl_verif) " + c["rustflags"]
    env["RUSTFLAGS"] = flags.strip()
    t = time.time()
    r = run(cmd, 1800, env=env, cwd=HARNESS)
    if r.returncode != 0:
        raise ToolError("cargo build failed for cfg %s:\n%s" % (cfg, r.stdout[-4000:]))
    log("built harness cfg=%s in %.1fs" % (cfg, time.time() - t))
    return harness_bin(cfg)


# ---------------------------------------------------------------- harness

def record(cfg, domain, args, out, timeout=900):
    """Run the harness; returns number of events. A crash of the harness itself
    (not of a guarded call) is a tool error."""
    cmd = [harness_bin(cfg), domain, "--out", out]
    for k, v in args.items():
        cmd += ["--" + k, str(v)]
    r = run(cmd, timeout)
    if r.returncode != 0:
        raise ToolError("harness failed (%s): %s" % (" ".join(cmd), r.stdout[-2000:]))
    m = re.search(r"events=(\d+)", r.stdout)
    return int(m.group(1)) if m else 0


# ---------------------------------------------------------------- TLC

def tlc_cmd(spec, cfgfile, metadir, workers=1, xmx="3g", extra=None):
    cp = ":".join([TLA_JAR, CM_JAR, os.path.join(V, "overrides", "classes")])
    cmd = ["java", "-XX:+UseParallelGC", "-Xss1g", "-Xmx" + xmx,
           "-Dtlc2.overrides.TLCOverrides=tlc2.overrides.TLCOverrides:CrrlOverrides",
           "-Dtlc2.tool.queue.IStateQueue=StateDeque",
           "-cp", cp, "tlc2.TLC", "-workers", str(workers), "-metadir", metadir, "-cleanup",
           "-noGenerateSpecTE", "-checkpoint", "0", "-config", cfgfile]   # StateDeque cannot checkpoint (TLC would try after 30 min)
    if extra:
        cmd += extra
    cmd.append(os.path.join(SPEC, spec + ".tla"))
    return cmd


RE_MISMATCH = re.compile(r'^<<"MISMATCH", (\d+), "([^"]*)"')
RE_CONSUMED = re.compile(r'^<<"TRACE_CONSUMED", (-?\d+), (\d+)>>')
RE_STATES = re.compile(r"^(\d+) states generated, (\d+) distinct states found")


def validate_trace(spec, trace, tag, timeout=3600):
    """TLC validates one recorded trace against Trace<spec>.  Returns dict with
    mismatching line numbers (1-based), states, transitions."""
    metadir = os.path.join(WORK, "meta-" + tag)
    cfgfile = os.path.join(SPEC, "cfg", spec + ".cfg")
    if not os.path.exists(cfgfile):
        cfgfile = os.path.join(SPEC, "cfg", "Trace.cfg")
    cmd = tlc_cmd(spec, cfgfile, metadir)
    r = run(cmd, timeout, env={"TRACE": trace}, cwd=WORK)
    out = r.stdout
    mism, consumed, total, gen, dist = [], None, None, 0, 0
    for line in out.splitlines():
        m = RE_MISMATCH.match(line)
        if m:
            mism.append((int(m.group(1)), m.group(2)))
            continue
        m = RE_CONSUMED.match(line)
        if m:
            consumed, total = int(m.group(1)), int(m.group(2))
            continue
        m = RE_STATES.match(line)
        if m:
            gen, dist = int(m.group(1)), int(m.group(2))
    shutil.rmtree(metadir, ignore_errors=True)
    if consumed is None or consumed != total or "Model checking completed" not in out:
        raise ToolError("TLC did not consume trace %s (consumed=%s of %s):\n%s"
                        % (trace, consumed, total, out[-3000:]))
    return dict(mismatches=mism, states=dist, transitions=gen, events=total)


def model_check(spec, cfgname, tag, workers=4, timeout=3600, xmx="6g", coverage=True):
    """Run a TLC model-checking configuration of an algorithm/design model.
    These never look at /repo; a failure is a tool (specification) error."""
    metadir = os.path.join(WORK, "meta-" + tag)
    cfgfile = os.path.join(SPEC, "cfg", cfgname + ".cfg")
    extra = ["-coverage", "1"] if coverage else []
    r = run(tlc_cmd(spec, cfgfile, metadir, workers=workers, xmx=xmx, extra=extra), timeout, cwd=WORK)
    shutil.rmtree(metadir, ignore_errors=True)
    out = r.stdout
    gen = dist = 0
    for line in out.splitlines():
        m = RE_STATES.match(line)
        if m:
            gen, dist = int(m.group(1)), int(m.group(2))
    if "Model checking completed. No error has been found." not in out:
        raise ToolError("model checking of %s/%s failed:\n%s" % (spec, cfgname, out[-4000:]))
    # vacuity guard: an action of the model that was never taken
    zero = re.findall(r"^<(\w+) line .*>: 0:0$", out, flags=re.M)
    return dict(spec=spec, cfg=cfgname, states=dist, transitions=gen, never_taken=zero)


def apalache_check(module, cinit, inv, tag, expect_ok=True, timeout=1800, init="Init", nxt="Next", length=0):
    """One Apalache obligation `Init => inv` (--length=0) of a module under spec/apalache: the SMT solver decides it
    for all values of the variables (full-width integer statements TLC can only enumerate at toy size).
    expect_ok=False is a deliberately wrong variant that must be refuted (non-vacuity of the encoding)."""
    outdir = os.path.join(WORK, "apalache-" + tag)
    cmd = ["apalache-mc", "check", "--init=" + init, "--next=" + nxt, "--inv=" + inv, "--length=%d" % length, "--out-dir=" + outdir]
    if cinit:
        cmd.append("--cinit=" + cinit)
    cmd.append(os.path.join(SPEC, "apalache", module + ".tla"))
    r = run(cmd, timeout, cwd=WORK)
    shutil.rmtree(outdir, ignore_errors=True)
    ok = "EXITCODE: OK" in r.stdout and "The outcome is: NoError" in r.stdout
    refuted = "Checker has found an error" in r.stdout
    if expect_ok and not ok:
        raise ToolError("Apalache obligation %s/%s/%s not discharged:\n%s" % (module, cinit, inv, r.stdout[-3000:]))
    if not expect_ok and not refuted:
        raise ToolError("Apalache did not refute the wrong variant %s/%s/%s:\n%s" % (module, cinit, inv, r.stdout[-3000:]))
    return dict(spec="apalache/" + module, cfg="%s %s init=%s next=%s length=%d" % (cinit, inv, init, nxt, length), states=0, transitions=0,
                never_taken=[], tool="apalache-mc 0.58 (SMT)", outcome="discharged for all values" if expect_ok else "wrong variant refuted")


# ---------------------------------------------------------------- findings

def load_findings():
    p = os.path.join(V, "known_findings.json")
    if not os.path.exists(p):
        return []
    return [f for f in json.load(open(p))["findings"] if isinstance(f, dict) and "property" in f]


def finding_matches(f, prop, cfg, script, ev):
    """A finding matches on property, configuration and a predicate over the
    event's *inputs* and failure kind -- never on a wrong output value."""
    if f["property"] != prop:
        return False
    if f.get("cfg", "*") not in ("*", cfg):
        return False
    m = f.get("match", {})
    if "op" in m and ev.get("op") not in m["op"]:
        return False
    if "ty" in m and script.get("ty") not in m["ty"]:
        return False
    if "panic" in m and m["panic"] not in ev.get("panic", ""):
        return False
    if "panic_absent" in m and "panic" in ev:
        return False
    for k, want in m.get("fields", {}).items():
        if ev.get(k) != want:
            return False
    if "input_class" in m:
        fn = INPUT_CLASSES.get(m["input_class"])
        if fn is None or not fn(script, ev):
            return False
    return True


def _int_le(b):
    return int.from_bytes(bytes(b), "little")


def _split_operand(script, ev):
    """value of the register a `split` event reads: the last write to it in the script"""
    a = ev.get("a")
    for e in reversed(script["events"][:-1]):
        if e.get("dst") == a and "b" in e and e.get("op") == "raw":
            return _int_le(e["b"])
    return None


def _unbalanced_448(script, ev):
    # lattice [[n,0],[k,1]] whose shortest vector is (k,1) itself with 223 < bitlen(k^2+1)
    # and whose second vector needs more than 640 bits of squared norm: |k| in [2^111.5, 2^126)
    n = 2**446 - 13818066809895115352007386748515426880336692474882178609894547503885
    k = _split_operand(script, ev)
    if k is None:
        return False
    k = min(k, n - k)
    return (k * k + 1).bit_length() > 223 and k.bit_length() <= 126


def _split_of_zero(script, ev):
    n = 2**446 - 13818066809895115352007386748515426880336692474882178609894547503885
    k = _split_operand(script, ev)
    return k is not None and k % n == 0


INPUT_CLASSES = {
    "split_of_zero": _split_of_zero,
    "sc448_split_short_k": _unbalanced_448,
}


# ---------------------------------------------------------------- check driver

class Check:
    def __init__(self, prop, tier, seed, level="model_checking"):
        self.prop, self.tier, self.seed, self.level = prop, tier, seed, level
        self.t0 = time.time()
        self.states = self.transitions = 0
        self.mc = []
        self.trace_events = 0
        self.scripts = 0
        self.by_op = {}
        self.samples = []
        self.violations = []
        self.consequences = 0
        self.known = []
        self.notes = []
        self.nontrivial = set()
        self.cfgs = set()
        self.findings = load_findings()
        os.makedirs(WORK, exist_ok=True)
        os.makedirs(os.path.join(V, "replay"), exist_ok=True)
        os.makedirs(os.path.join(V, "evidence"), exist_ok=True)

    # -- trace jobs: list of dict(cfg, domain, args, spec, tag, owners)
    def run_trace_jobs(self, jobs, owners, parallel=8, nontrivial=None):
        """owners: op -> set of property ids whose statement covers that call.
        A rejected event is a violation of this check's property only if the
        property owns the operation."""
        for cfg in sorted({j["cfg"] for j in jobs}):
            build_harness(cfg)
            self.cfgs.add(cfg)
        for j in jobs:
            j["trace"] = os.path.join(WORK, "%s-%s.ndjson" % (self.prop, j["tag"]))
            j["n"] = record(j["cfg"], j["domain"], dict(j["args"], seed=self.seed * 1000 + j.get("chunk", 0)), j["trace"],
                            timeout=j.get("rec_timeout", 900))

        def val(j):
            return validate_trace(j["spec"], j["trace"], "%s-%s" % (self.prop, j["tag"]),
                                  timeout=j.get("tlc_timeout", 3600))
        with ThreadPoolExecutor(max_workers=parallel) as ex:
            results = list(ex.map(val, jobs))
        for j, r in zip(jobs, results):
            self.states += r["states"]
            self.transitions += r["transitions"]
            self.trace_events += r["events"]
            self._digest_trace(j, r, owners, nontrivial)
            if not self.keep_traces:
                os.remove(j["trace"])

    keep_traces = False

    def _digest_trace(self, job, res, owners, nontrivial):
        bad = {i: op for i, op in res["mismatches"]}
        events = []
        script_start = 0
        lines = open(job["trace"]).read().splitlines()
        cur = {"ty": None, "events": []}
        for idx, line in enumerate(lines, 1):
            ev = json.loads(line)
            op = ev.get("op")
            if op in ("init", "reset"):
                cur = {"ty": ev.get("ty"), "events": [], "init": ev}
                self.scripts += 1
            cur["events"].append(ev)
            self.by_op[op] = self.by_op.get(op, 0) + 1
            if nontrivial:
                key = nontrivial(cur, ev)
                if key is not None:
                    self.nontrivial.add(key)
            if len(self.samples) < 6 and op not in ("init", "reset") and (idx % 997 == 3 or idx < 4):
                self.samples.append({"cfg": job["cfg"], "ty": cur["ty"], "event": _shorten(ev)})
            # taint tracking: the spec keeps the *specified* value in a register after a
            # rejected write while the implementation holds its own; later events that
            # read such a register are consequences, not independent rejections
            reads = [ev[f] for f in ("a", "b", "a0", "a1") if isinstance(ev.get(f), int)]
            reads += [r for r in ev.get("rs", []) if isinstance(r, int)]
            if op == "set_cond" and "dst" in ev:
                reads.append(ev["dst"])
            taint = cur.setdefault("taint", set())
            consequence = any(r in taint for r in reads)
            writes = [ev[f] for f in ("dst",) if isinstance(ev.get(f), int)]
            if op == "cswap":
                writes = [ev.get("a"), ev.get("b")]
            if op == "batch_invert":
                writes = list(ev.get("rs", []))
            if idx in bad:
                for w in writes:
                    taint.add(w)
                if consequence:
                    self.consequences += 1
                else:
                    self._classify(job, cur, ev, idx, owners)
            else:
                for w in writes:
                    if consequence:
                        taint.add(w)
                    else:
                        taint.discard(w)

    def _classify(self, job, script, ev, idx, owners):
        op = ev.get("op")
        own = set(owners.get(op, set()))
        if "panic" in ev:
            own |= owners.get("@panic:" + op, owners.get("@panic", set()))
        if job["cfg"] != "default":
            own |= owners.get("@cfg", set())
        desc = "cfg=%s ty=%s op=%s line=%d %s" % (job["cfg"], script["ty"], op, idx,
                                                 ("panic=" + ev["panic"]) if "panic" in ev else "wrong result")
        if self.prop not in own:
            self.notes.append("rejected event owned by %s, not %s: %s" % (sorted(own), self.prop, desc))
            return
        sc = dict(script, events=list(script["events"]))
        for f in self.findings:
            if finding_matches(f, self.prop, job["cfg"], sc, ev):
                self.known.append((f, desc))
                return
        h = hashlib.sha1(json.dumps(sc["events"], sort_keys=True).encode()).hexdigest()[:10]
        path = os.path.join(V, "replay", "%s-%s-%s.json" % (self.prop, job["cfg"], h))
        json.dump({"property": self.prop, "cfg": job["cfg"], "domain": job["domain"], "spec": job["spec"],
                   "harness_args": dict(job["args"], seed=self.seed * 1000 + job.get("chunk", 0)), "line": idx,
                   "rejected_event": ev, "script": sc["events"][-60:], "description": desc},
                  open(path, "w"), indent=1)
        self.violations.append((path, desc))

    def run_mc_jobs(self, jobs, parallel=2):
        def one(j):
            return model_check(j["spec"], j["cfg"], "%s-%s" % (self.prop, j["cfg"]),
                               workers=j.get("workers", 4), timeout=j.get("timeout", 3600),
                               xmx=j.get("xmx", "6g"), coverage=j.get("coverage", True))
        with ThreadPoolExecutor(max_workers=parallel) as ex:
            for r in ex.map(one, jobs):
                if r["never_taken"]:
                    raise ToolError("vacuity: actions never taken in %s/%s: %s"
                                    % (r["spec"], r["cfg"], r["never_taken"]))
                self.mc.append(r)
                self.states += r["states"]
                self.transitions += r["transitions"]

    def run_apalache_jobs(self, jobs, parallel=3):
        def one(j):
            return apalache_check(j["module"], j.get("cinit"), j["inv"],
                                  "%s-%s-%s-%s-%s" % (self.prop, j["module"], j.get("cinit"), j["inv"], j.get("init", "Init")),
                                  expect_ok=j.get("expect_ok", True), timeout=j.get("timeout", 1800),
                                  init=j.get("init", "Init"), nxt=j.get("next", "Next"), length=j.get("length", 0))
        with ThreadPoolExecutor(max_workers=parallel) as ex:
            for r in ex.map(one, jobs):
                self.mc.append(r)

    def finish(self, rule, assumptions, extra=None):
        seen = set()
        for f, desc in self.known:
            k = json.dumps(f, sort_keys=True)
            if k in seen:
                continue
            seen.add(k)
            n = sum(1 for g, _ in self.known if json.dumps(g, sort_keys=True) == k)
            log("KNOWN-FINDING: property=%s %s (%d events; e.g. %s)" % (self.prop, f.get("what", ""), n, desc))
        for n in self.notes[:20]:
            log("NOTE: " + n)
        for path, desc in self.violations[:50]:
            log("VIOLATION property=%s replay=%s   # %s" % (self.prop, path, desc))
        cov = {
            "states": self.states, "transitions": self.transitions,
            "traces_validated_against_impl": self.scripts,
            "trace_events_validated": self.trace_events,
            "events_by_operation": self.by_op,
            "evaluations": self.trace_events,
            "distinct_nontrivial": len(self.nontrivial),
            "rule": rule,
            "samples": self.samples or [{"note": "no trace events in this run"}],
            "model_checking_runs": self.mc,
            "configurations": sorted(self.cfgs),
            "known_findings_hit": len(self.known),
            "rejected_events_downstream_of_a_rejected_write": self.consequences,
            "exhaustive": False,
        }
        if extra:
            cov.update(extra)
        ev = {"property_id": self.prop, "tier": self.tier, "seed": self.seed, "level": self.level,
              "coverage": cov, "assumptions": assumptions, "wall_s": round(time.time() - self.t0, 1),
              "violations": len(self.violations)}
        json.dump(ev, open(os.path.join(V, "evidence", self.prop + ".json"), "w"), indent=1)
        log("%s %s: %d events in %d scripts validated by TLC, %d states; %d violations, %d known-finding events; %.0fs"
            % (self.prop, self.tier, self.trace_events, self.scripts, self.states, len(self.violations),
               len(self.known), time.time() - self.t0))
        return 1 if self.violations else 0


def _shorten(ev):
    o = {}
    for k, v in ev.items():
        if isinstance(v, list) and len(v) > 40:
            o[k] = v[:40] + ["...(%d)" % len(v)]
        else:
            o[k] = v
    return o
