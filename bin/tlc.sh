#!/bin/sh
# Run TLC with the crrl BigNat overrides loaded.  Usage: bin/tlc.sh <TLC args>
# All modules live flat in /verif/spec (TLC resolves EXTENDS next to the root module).
V="$(cd "$(dirname "$0")/.." && pwd)"
JOPTS="${VERIF_JOPTS:--Xss1g -Xmx3g}"
exec java -XX:+UseParallelGC $JOPTS \
  -Dtlc2.overrides.TLCOverrides=tlc2.overrides.TLCOverrides:CrrlOverrides \
  -Dtlc2.tool.queue.IStateQueue=StateDeque \
  -cp /opt/veriftools/tla/tla2tools.jar:/opt/veriftools/tla/CommunityModules-deps.jar:$V/overrides/classes \
  tlc2.TLC "$@"
