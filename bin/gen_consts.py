#!/usr/bin/env python3
"""Generate spec/Consts.tla: the numeric parameters of the fields, groups and
standards as little-endian byte tuples (BigNat form).  The values are the
published parameters (RFC 7748/8032/9496, SEC2, FIPS 186, the jq255/GLS254
papers as quoted in the crate documentation); nothing is read from /repo."""
import sys

def le(x, n=None):
    b = []
    while x:
        b.append(x & 255); x >>= 8
    if n is not None:
        assert len(b) <= n
        b += [0] * (n - len(b))
    return "<<" + ", ".join(map(str, b)) + ">>"

C = {}
# prime fields
C["Q25519"] = 2**255 - 19
C["Q255E"] = 2**255 - 18651
C["Q255S"] = 2**255 - 3957
C["QP256"] = 2**256 - 2**224 + 2**192 + 2**96 - 1
C["QSECP256K1"] = 2**256 - 2**32 - 977
C["Q448"] = 2**448 - 2**224 - 1
# group orders
C["L25519"] = 2**252 + 27742317777372353535851937790883648493
C["L448"] = 2**446 - 13818066809895115352007386748515426880336692474882178609894547503885
C["NP256"] = 0xFFFFFFFF00000000FFFFFFFFFFFFFFFFBCE6FAADA7179E84F3B9CAC2FC632551
C["NSECP256K1"] = 0xFFFFFFFFFFFFFFFFFFFFFFFFFFFFFFFEBAAEDCE6AF48A03BBFD25E8CD0364141
C["RJQ255E"] = 2**254 - 131528281291764213006042413802501683931
C["RJQ255S"] = 2**254 + 56904135270672826811114353017034461895
C["RGLS254"] = 2**253 + 83877821160623817322862211711964450037
# extra ModInt256 moduli instantiated only by the conformance harness to reach
# every modulus-size class of the generic Montgomery code (193-bit, 255-bit
# above the 1.73*2^253 split bound, full 256-bit)
C["MSPEC193"] = 2**192 + 133            # prime? not required: ring ops only
C["MSPEC255"] = 2**255 - 31
C["MSPEC256"] = 2**256 - 189
# user-defined moduli of the define_gfgen! macro (3, 4, 6, 8 limbs), instantiated by the harness
C["GG130"] = 2**130 - 5
C["GG256"] = 2**256 - 189
C["GG384"] = 2**384 - 317
C["GG512"] = 2**512 - 569
def _is_prime(n):
    for a in (2, 3, 5, 7, 11, 13, 17, 19, 23, 29, 31, 37):
        d, r = n - 1, 0
        while d % 2 == 0:
            d //= 2; r += 1
        x = pow(a, d, n)
        if x in (1, n - 1):
            continue
        for _ in range(r - 1):
            x = x * x % n
            if x == n - 1:
                break
        else:
            return False
    return True
C["MI200"] = 1606938044258990275541962092341162602522202993782792835301301
C["MI208"] = 411376139330301510538742295639337626245683966408394965837151957
C["MI216"] = 105312291668557186697918027683670432318895095400549111254310977159
C["MI224"] = 26959946667150639794667015087019630673637144422540572481103610248853
C["MI232"] = 6901746346790563787434755862277025452451108972170386555162524223798631
C["MI240"] = 1766847064778384329583297500742918515827483896875618958121606201292619309
C["MI248"] = 452312848583266388373324160190187140051835877600158453279131187530910662419
C["MI241"] = 1766847064778384329583297500742918515827483896875618958121606201292619891
for _k in ("GG130", "GG256", "GG384", "GG512", "MI200", "MI208", "MI216", "MI224", "MI232", "MI240", "MI248", "MI241"):
    assert _is_prime(C[_k]), _k
# split_vartime correction thresholds documented in src/backend/mod.rs:
# "about 1.73*2^253" = floor(2^254/(2/sqrt(3))) = floor(sqrt(3)*2^253), and "1.73*2^255"
from math import isqrt
C["NMAX253"] = isqrt(3 * 2**506)
C["NMAX255"] = isqrt(3 * 2**510)
# ---- curve parameters (published values; sanity-checked below) ----
P25519 = 2**255 - 19
C["D25519"] = (-121665 * pow(121666, -1, P25519)) % P25519
P448 = 2**448 - 2**224 - 1
C["D448"] = (-39081) % P448
C["G448X"] = 224580040295924300187604334099896036246789641632564134246125461686950415467406032909029192869357953282578032075146446173674602635247710
C["G448Y"] = 298819210078481492676017930443930673437544040154080242095928241372331506189835876003536878655418784733982303233503462500531545062832660
assert (C["G448X"]**2 + C["G448Y"]**2 - 1 - C["D448"] * C["G448X"]**2 * C["G448Y"]**2) % P448 == 0
PP256 = C["QP256"]
C["BP256"] = 0x5AC635D8AA3A93E7B3EBBD55769886BC651D06B0CC53B0F63BCE3C3E27D2604B
C["GP256X"] = 0x6B17D1F2E12C4247F8BCE6E563A440F277037D812DEB33A0F4A13945D898C296
C["GP256Y"] = 0x4FE342E2FE1A7F9B8EE7EB4A7C0F9E162BCE33576B315ECECBB6406837BF51F5
assert (C["GP256Y"]**2 - C["GP256X"]**3 + 3 * C["GP256X"] - C["BP256"]) % PP256 == 0
PK1 = C["QSECP256K1"]
C["GK1X"] = 0x79BE667EF9DCBBAC55A06295CE870B07029BFCDB2DCE28D959F2815B16F81798
C["GK1Y"] = 0x483ADA7726A3C4655DA4FBFC0E1108A8FD17B448A68554199C47D08FFB10D4B8
assert (C["GK1Y"]**2 - C["GK1X"]**3 - 7) % PK1 == 0
# GLS254 conventional generator (x, s) as documented in the crate (from the gls254 reference code)
def w64(lo, hi): return lo | (hi << 64)
C["GLS_GX0"] = w64(0xB6412F20326B8675, 0x657CB9F79AE29894)
C["GLS_GX1"] = w64(0x3932450FF66DD010, 0x14C6F62CB2E3915E)
C["GLS_GS0"] = w64(0x5FADCA04023DC896, 0x763522ADA04300F1)
C["GLS_GS1"] = w64(0x206E4C1E9E07345A, 0x4F69A66A2381CA6D)
# binary field moduli (GF(2)[z] polynomials as bit strings)
C["ZMOD127"] = 2**127 + 2**63 + 1

def primes(n):
    ps, k = [], 2
    while len(ps) < n:
        if all(k % p for p in ps):
            ps.append(k)
        k += 1
    return ps

def icbrt(n):
    lo, hi = 0, 1 << ((n.bit_length() + 2) // 3 + 1)
    while lo < hi:
        mid = (lo + hi + 1) // 2
        if mid ** 3 <= n:
            lo = mid
        else:
            hi = mid - 1
    return lo

# FIPS 180-4: K = first w bits of the fractional parts of the cube roots of the
# first 64/80 primes; H0 = first w bits of the fractional parts of the square roots
SEQ = {}
P80 = primes(80)
SEQ["SHA_K256"] = [icbrt(p << 96) & 0xFFFFFFFF for p in P80[:64]]
SEQ["SHA_K512"] = [icbrt(p << 192) & 0xFFFFFFFFFFFFFFFF for p in P80]
SEQ["SHA_IV256"] = [isqrt(p << 64) & 0xFFFFFFFF for p in P80[:8]]
SEQ["SHA_IV512"] = [isqrt(p << 128) & 0xFFFFFFFFFFFFFFFF for p in P80[:8]]
SEQ["SHA_IV384"] = [isqrt(p << 128) & 0xFFFFFFFFFFFFFFFF for p in P80[8:16]]
# SHA-224: the second 32 bits of the fractional parts of the square roots of primes 9..16
SEQ["SHA_IV224"] = [isqrt(p << 128) & 0xFFFFFFFF for p in P80[8:16]]

def main(out):
    with open(out, "w") as f:
        f.write("------------------------------- MODULE Consts -------------------------------\n")
        f.write("(* GENERATED by bin/gen_consts.py -- published numeric parameters as BigNat\n")
        f.write("   (little-endian byte sequences).  Do not edit by hand. *)\n")
        for k, v in C.items():
            f.write("%s == %s\n" % (k, le(v)))
        for k, v in SEQ.items():
            f.write("%s == <<%s>>\n" % (k, ", ".join(le(x) for x in v)))
        f.write("=============================================================================\n")

if __name__ == "__main__":
    main(sys.argv[1] if len(sys.argv) > 1 else "/verif/spec/Consts.tla")
